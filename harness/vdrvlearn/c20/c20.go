// Package c20: sealed answers round-trip; answer verification is exact.
//
// Faults are in the statement: the stored sealed value is corrupted in every
// single-byte way (bit flips, byte overwrites, truncation, deletion,
// insertion, text-level damage of the base64 form), the entropy source fails
// or runs short, and values are opened with the wrong key. Verification is
// run over every subset of marked answers against every assignment of outputs.
package c20

import (
	"crypto/rand"
	"encoding/base64"
	"encoding/json"
	"errors"
	"fmt"
	"io"
	"os"
	"path/filepath"
	"strings"

	"evylang.dev/evy/learn/pkg/learn"
	"evylang.dev/evy/vdrv/core"
	"evylang.dev/evy/vsim/prng"
	"gopkg.in/yaml.v3"
)

// Key is one fixture key pair.
type Key struct {
	Bits    int    `json:"bits"`
	Public  string `json:"public"`
	Private string `json:"private"`
}

// D is the driver.
type D struct {
	Keys    []Key
	KeyFile string
	dir     string
	n       int
}

func (d *D) Property() string { return "C20" }
func (d *D) Level() string    { return "fault_enumeration" }

type tierCfg struct {
	sealed    int  // sealed values whose corruption space is enumerated
	allBytes  bool // all 255 alternatives per byte instead of 0x00/0xFF/+1
	roundtrip int
	questions int
	entropy   int
	freshKeys int
	files     int // seal -> write file -> load -> unseal round trips through the stored file
	histories int // operation sequences on ONE question model against a reference model
	splices   int // several values sealed one after the other in one process, then every cross-combination of two of them
	mixed     int // the same programs used for a text question and for a picture question in one process
	many      int // questions with more choices than there are letters
}

func cfg(tier string) tierCfg {
	if tier == "thorough" {
		return tierCfg{sealed: 240, allBytes: true, roundtrip: 6000, questions: 6000, entropy: 600, freshKeys: 6, files: 4000, histories: 6000, splices: 400, mixed: 1500, many: 400}
	}
	return tierCfg{sealed: 16, allBytes: false, roundtrip: 1900, questions: 260, entropy: 40, files: 160, histories: 240, splices: 24, mixed: 40, many: 30}
}

func (d *D) Count(tier string) int {
	c := cfg(tier)
	return c.sealed + c.roundtrip + c.questions + c.entropy + c.files + c.histories + c.splices + c.mixed + c.many
}

func setPlain(sc *core.Scenario, p string) {
	sc.Sealed["plaintext_b64"] = base64.StdEncoding.EncodeToString([]byte(p)) // JSON would mangle invalid UTF-8
}

func getPlain(sc *core.Scenario) string {
	b, _ := base64.StdEncoding.DecodeString(sc.Sealed["plaintext_b64"])
	return string(b)
}

func (d *D) keys() []Key {
	if d.Keys == nil {
		b, err := os.ReadFile(d.KeyFile)
		if err != nil {
			panic("C20: cannot read key fixtures: " + err.Error())
		}
		if err := json.Unmarshal(b, &d.Keys); err != nil {
			panic(err)
		}
	}
	return d.Keys
}

var lastBytes = []byte{'\n', '\t', '\r', 0x01, 0x02, 0x08, 0x0f, 0x10, 0x00, ' ', 0x7f, 0x80, 0xff, 'a'}

var answerPool = []string{"a", "c", "a,b", "b, d ,e", "hi", "print \"hi\"\n", "é", "日本語", "𝄞", "\x00", "a\x00b", "\xff\xfe", ": yaml", "- x", "'q'", "#c", " ", "\n", "\t\ttabs", "z"}

func answer(r *prng.R) string {
	switch r.Intn(8) {
	case 0:
		n := []int{100, 1000, 4096, 65536}[r.Intn(4)]
		b := make([]byte, n)
		for i := range b {
			b[i] = byte(r.Intn(256))
		}
		return string(b)
	case 1:
		return strings.Repeat(answerPool[r.Intn(len(answerPool))], r.Range(1, 50))
	}
	return answerPool[r.Intn(len(answerPool))]
}

// seeded entropy: the scenario's stream replaces crypto/rand.Reader
type entropy struct {
	r     *prng.R
	limit int // fail after this many bytes (-1 = never)
	used  int
	short bool // return short reads without error at the limit
}

func (e *entropy) Read(p []byte) (int, error) {
	for i := range p {
		if e.limit >= 0 && e.used >= e.limit {
			if e.short && i > 0 {
				return i, nil
			}
			return i, errors.New("entropy source failed")
		}
		p[i] = byte(e.r.Uint64())
		e.used++
	}
	return len(p), nil
}

func withEntropy(e io.Reader, f func()) {
	old := rand.Reader
	rand.Reader = e
	defer func() { rand.Reader = old }()
	f()
}

func guard(f func()) (panicked string) {
	defer func() {
		if p := recover(); p != nil {
			panicked = fmt.Sprint(p)
		}
	}()
	f()
	return ""
}

func short(s string) string {
	if len(s) > 80 {
		return fmt.Sprintf("%q…(%d bytes)", s[:80], len(s))
	}
	return fmt.Sprintf("%q", s)
}

// Base builds item idx.
func (d *D) Base(idx int, ctx *core.Ctx) *core.Scenario {
	c := cfg(ctx.Tier)
	r := core.ItemRNG(ctx.Seed, "C20", idx)
	keys := d.keys()
	sc := &core.Scenario{Property: "C20", Seed: ctx.Seed, Index: idx, Level: "sealfault", ReplayExact: true, Sealed: map[string]string{}}
	k := keys[r.Intn(len(keys))]
	switch {
	case idx >= c.sealed+c.roundtrip+c.entropy+c.questions+c.files+c.histories+c.splices+c.mixed:
		// more choices than letters: the choices past 'z' cannot be marked, so they must not match either
		sc.Kind = "question-many"
		j := idx - (c.sealed + c.roundtrip + c.entropy + c.questions + c.files + c.histories + c.splices + c.mixed)
		sc.Sealed["choices"] = fmt.Sprint([]int{27, 28, 30, 26, 52, 53}[j%6])
		sc.Sealed["pattern"] = fmt.Sprint((j / 6) % 8)
		sc.Sealed["multi"] = []string{"0", "1"}[(j/48+j)%2]
	case idx >= c.sealed+c.roundtrip+c.entropy+c.questions+c.files+c.histories+c.splices:
		// programs that print AND draw, used by a text question and by a picture question of the same process
		sc.Kind = "question-mixed"
		n := r.Range(2, 4)
		sc.Sealed["choices"] = fmt.Sprint(n)
		sc.Sealed["matching"] = fmt.Sprint(r.Intn(1 << n))     // choices whose text output equals the question's
		sc.Sealed["matching_pic"] = fmt.Sprint(r.Intn(1 << n)) // choices whose picture equals the question's
		sc.Sealed["multi"] = []string{"0", "1"}[r.Intn(2)]
		sc.Sealed["order"] = []string{"text-first", "picture-first"}[r.Intn(2)]
		sc.Sealed["variant"] = fmt.Sprint(r.Intn(1000))
	case idx >= c.sealed+c.roundtrip+c.entropy+c.questions+c.files+c.histories:
		// several answers sealed one after the other for the same key in this process (as
		// sealing a whole course does), then pieces of one stored value put into another
		sc.Kind = "splice"
		k = keys[idx%len(keys)]
		a := answer(r)
		if len(a) > 120 {
			a = a[:120]
		}
		b := answer(r)
		switch idx % 4 {
		case 0: // same length, different text: the stored values have the same shape
			bb := []byte(strings.Repeat("x", len(a)))
			for i := range bb {
				bb[i] = "abcdefghijklmnopqrstuvwxyz"[r.Intn(26)]
			}
			b = string(bb)
			if b == a {
				b = "B" + b[1:]
			}
		case 1: // single letters, like real answers
			a, b = string(rune('a'+r.Intn(4))), string(rune('e'+r.Intn(4)))
		case 2: // the same text sealed twice
			b = a
		}
		if len(b) > 120 {
			b = b[:120]
		}
		if a == "" {
			a = "a"
		}
		if b == "" {
			b = "b"
		}
		setPlain(sc, a)
		sc.Sealed["plaintext2_b64"] = base64.StdEncoding.EncodeToString([]byte(b))
		sc.Sealed["warmup"] = fmt.Sprint(r.Intn(3)) // values sealed before the two, in the same process
	case idx < c.sealed:
		sc.Kind = "corruption"
		if idx%4 != 0 {
			k = keys[idx%3] // mostly the 1024-bit keys: the production key size
		}
		plain := answer(r)
		if idx%5 == 1 {
			// a long, repetitive program text: the kind of answer a format might treat specially (compress, chunk)
			plain = strings.Repeat("print \"cookies and coding\"\nmove 10 10\n", 6+idx%7)
		}
		if len(plain) > 300 {
			plain = plain[:300]
		}
		setPlain(sc, plain)
	case idx < c.sealed+c.roundtrip:
		sc.Kind = "roundtrip"
		if k := idx - c.sealed; k < len(lastBytes)*64 && k%2 == 0 || k < 2*len(lastBytes)*64 && c.roundtrip > 3000 {
			// systematic: every length 1..64 (block boundaries of the cipher included)
			// with every interesting final byte (line ends, low bytes that look like
			// padding counts, NUL, high bytes)
			k /= 2
			if c.roundtrip > 3000 {
				k = idx - c.sealed
			}
			k %= len(lastBytes) * 64
			n := 1 + k/len(lastBytes)
			b := []byte(strings.Repeat("print \"cookies and coding\" ", 4)[:n])
			b[n-1] = lastBytes[k%len(lastBytes)]
			setPlain(sc, string(b))
		} else {
			setPlain(sc, answer(r))
		}
	case idx < c.sealed+c.roundtrip+c.entropy:
		sc.Kind = "entropy"
		setPlain(sc, answer(r))
		sc.Sealed["entropy_limit"] = fmt.Sprint(r.Intn(80))
		if r.Chance(0.5) {
			sc.Sealed["entropy_short"] = "1"
		}
	case idx >= c.sealed+c.roundtrip+c.entropy+c.questions+c.files:
		sc.Kind = "model-history"
		sc.Sealed["ops"] = fmt.Sprint(r.Range(6, 14))
		sc.Sealed["matching"] = fmt.Sprint(1 + r.Intn(7))
		sc.Sealed["start_sealed"] = []string{"0", "1"}[r.Intn(2)]
		sc.Sealed["op_seed"] = fmt.Sprint(r.Uint64() >> 1)
		sc.Sealed["public_key2"] = keys[(idx+1)%len(keys)].Public
		sc.Sealed["private_key2"] = keys[(idx+1)%len(keys)].Private
		k = keys[idx%len(keys)]
	case idx >= c.sealed+c.roundtrip+c.entropy+c.questions:
		sc.Kind = "file-roundtrip"
		setPlain(sc, fileText(r))
	default:
		sc.Kind = "question"
		n := r.Range(2, 5)
		sc.Sealed["choices"] = fmt.Sprint(n)
		sc.Sealed["matching"] = fmt.Sprint(r.Intn(1 << n)) // which choices output the question's output
		sc.Sealed["multi"] = []string{"0", "1"}[r.Intn(2)]
		sc.Sealed["form"] = fmt.Sprint(r.Intn(9)) // 0-1 inline text, 2-3 evy code blocks, 4-7 picture questions with linked programs (7: a picture with text), 8: very long text outputs
		sc.Sealed["sealed_fm"] = []string{"0", "1"}[r.Intn(2)]
	}
	sc.Sealed["public_key"] = k.Public
	sc.Sealed["private_key"] = k.Private
	return sc
}

// Regen implements core.Driver.
func (d *D) Regen(idx int, ctx *core.Ctx) *core.Scenario { return d.Base(idx, ctx) }

// ---------------------------------------------------------------- corruption

// Corruption is one damage applied to a sealed value.
type Corruption struct {
	Layer string // bytes | text | key
	Op    string
	Pos   int
	Val   int
}

func (c Corruption) String() string {
	return fmt.Sprintf("%s:%s@%d=%d", c.Layer, c.Op, c.Pos, c.Val)
}

const b64alpha = "ABCDEFGHIJKLMNOPQRSTUVWXYZabcdefghijklmnopqrstuvwxyz0123456789+/"

// corruptions enumerates the damage space for a sealed value.
func corruptions(sealed string, allBytes bool) []Corruption {
	raw, _ := base64.StdEncoding.DecodeString(sealed)
	var cs []Corruption
	for i := range raw {
		for bit := 0; bit < 8; bit++ {
			cs = append(cs, Corruption{"bytes", "flip", i, bit})
		}
		if allBytes || i < 4 {
			// the first bytes are the envelope's structure (version, length field): every value, always
			for v := 0; v < 256; v++ {
				if byte(v) != raw[i] && !singleBit(byte(v)^raw[i]) {
					cs = append(cs, Corruption{"bytes", "set", i, v})
				}
			}
		} else {
			for _, v := range []int{0x00, 0xff, int(raw[i]+1) & 0xff} {
				if byte(v) != raw[i] && !singleBit(byte(v)^raw[i]) {
					cs = append(cs, Corruption{"bytes", "set", i, v})
				}
			}
		}
		cs = append(cs, Corruption{"bytes", "delete", i, 0})
		cs = append(cs, Corruption{"bytes", "insert", i, 0x00}, Corruption{"bytes", "insert", i, 0xa5})
	}
	for n := 0; n < len(raw); n++ {
		cs = append(cs, Corruption{"bytes", "truncate", n, 0})
	}
	cs = append(cs, Corruption{"bytes", "append", len(raw), 0x00}, Corruption{"bytes", "append", len(raw), 0x41})
	if len(raw) > 40 {
		cs = append(cs, Corruption{"bytes", "swap", 3, 20}, Corruption{"bytes", "swap", len(raw) - 40, 20})
		cs = append(cs, Corruption{"bytes", "lenfield", 0, 1}, Corruption{"bytes", "lenfield", 0, -1}, Corruption{"bytes", "lenfield", 0, 16}, Corruption{"bytes", "lenfield", 0, -16})
	}
	for i := 0; i < len(sealed); i++ {
		alts := 2
		if allBytes {
			alts = 6
		}
		for a := 1; a <= alts; a++ {
			idx := strings.IndexByte(b64alpha, sealed[i])
			cs = append(cs, Corruption{"text", "char", i, int(b64alpha[(idx+a*7+64)%64])})
		}
		cs = append(cs, Corruption{"text", "char", i, '='}, Corruption{"text", "char", i, '*'})
		cs = append(cs, Corruption{"text", "prefix", i, 0})
		if i%16 == 0 {
			cs = append(cs, Corruption{"text", "insert", i, '\n'}, Corruption{"text", "insert", i, ' '})
		}
	}
	cs = append(cs, Corruption{"text", "strip-padding", 0, 0}, Corruption{"text", "add-padding", 0, 0})
	return cs
}

func singleBit(b byte) bool { return b != 0 && b&(b-1) == 0 }

func apply(sealed string, c Corruption) string {
	if c.Layer == "text" {
		switch c.Op {
		case "char":
			return sealed[:c.Pos] + string(rune(c.Val)) + sealed[c.Pos+1:]
		case "prefix":
			return sealed[:c.Pos]
		case "insert":
			return sealed[:c.Pos] + string(rune(c.Val)) + sealed[c.Pos:]
		case "strip-padding":
			return strings.TrimRight(sealed, "=")
		case "add-padding":
			return sealed + "="
		}
		return sealed
	}
	raw, _ := base64.StdEncoding.DecodeString(sealed)
	b := append([]byte(nil), raw...)
	switch c.Op {
	case "flip":
		b[c.Pos] ^= 1 << uint(c.Val)
	case "set":
		b[c.Pos] = byte(c.Val)
	case "delete":
		b = append(b[:c.Pos], b[c.Pos+1:]...)
	case "insert":
		b = append(b[:c.Pos], append([]byte{byte(c.Val)}, b[c.Pos:]...)...)
	case "truncate":
		b = b[:c.Pos]
	case "append":
		b = append(b, byte(c.Val))
	case "swap":
		for i := 0; i < c.Val && c.Pos+c.Val+i < len(b); i++ {
			b[c.Pos+i], b[c.Pos+c.Val+i] = b[c.Pos+c.Val+i], b[c.Pos+i]
		}
	case "lenfield":
		if len(b) >= 3 {
			n := int(b[1])<<8 | int(b[2])
			n += c.Val
			b[1], b[2] = byte(n>>8), byte(n)
		}
	}
	return base64.StdEncoding.EncodeToString(b)
}

func checkOpen(private, sealedValue, plain string, what string) *core.Violation {
	var got string
	var err error
	if p := guard(func() { got, err = learn.Decrypt(private, sealedValue) }); p != "" {
		return &core.Violation{Oracle: "no-panic", Signature: "panic:decrypt", Expected: "opening a damaged sealed value never crashes",
			Observed: map[string]any{"panic": p, "damage": what}, Match: map[string]string{"oracle": "panic"}}
	}
	if err == nil && got != plain {
		return &core.Violation{Oracle: "reject-or-original", Signature: "different-plaintext:" + strings.SplitN(what, "@", 2)[0],
			Expected: "an altered sealed value (or another key) is rejected or still yields the original answer – never a different one",
			Observed: map[string]any{"damage": what, "original": short(plain), "opened_to": short(got)}, Match: map[string]string{"oracle": "different-plaintext"}}
	}
	return nil
}

func (d *D) runCorruption(sc *core.Scenario, ctx *core.Ctx, allBytes bool) *core.Violation {
	plain := getPlain(sc)
	pub, priv := sc.Sealed["public_key"], sc.Sealed["private_key"]
	sealedValue := sc.Sealed["sealed_value"]
	if sealedValue == "" {
		var err error
		withEntropy(&entropy{r: prng.Derive(sc.Seed, uint64(sc.Index), 1), limit: -1}, func() {
			sealedValue, err = learn.Encrypt(pub, plain)
		})
		if err != nil {
			return &core.Violation{Oracle: "roundtrip", Signature: "encrypt-error", Expected: "sealing succeeds for every text",
				Observed: map[string]any{"error": err.Error(), "plaintext": short(plain)}, Match: map[string]string{"oracle": "roundtrip"}}
		}
		sc.Sealed["sealed_value"] = sealedValue // stored so that replay does not depend on re-encryption
	}
	if one := sc.Sealed["corruption"]; one != "" {
		// replay of a single corruption
		var c Corruption
		fmt.Sscanf(one, "%s %s %d %d", &c.Layer, &c.Op, &c.Pos, &c.Val) //nolint:errcheck
		return checkOpen(priv, apply(sealedValue, c), plain, c.String())
	}
	if v := checkOpen(priv, sealedValue, plain, "none"); v != nil {
		return v
	}
	if ctx != nil {
		ctx.Inc("evaluations", 1)
		ctx.Inc("sealed_values_enumerated", 1)
	}
	cs := corruptions(sealedValue, allBytes)
	stillOriginal := 0
	for _, c := range cs {
		core.Heartbeat()
		damaged := apply(sealedValue, c)
		if damaged == sealedValue {
			continue
		}
		v := checkOpen(priv, damaged, plain, c.String())
		if ctx != nil {
			ctx.Inc("evaluations", 1)
			ctx.Inc("corrupt:"+c.Layer+":"+c.Op, 1)
			ctx.Distinct(prng.HashString(damaged))
			ctx.Sched(prng.HashString(fmt.Sprint(c.Layer, c.Op, c.Pos, c.Val, len(sealedValue))))
		}
		if v != nil {
			sc.Sealed["corruption"] = fmt.Sprintf("%s %s %d %d", c.Layer, c.Op, c.Pos, c.Val)
			return v
		}
		if got, err := learn.Decrypt(priv, damaged); err == nil && got == plain {
			stillOriginal++
		}
	}
	if ctx != nil {
		ctx.Inc("damaged_values_still_opening_to_original", int64(stillOriginal))
	}
	// wrong keys
	for i, k := range d.keys() {
		if k.Private == priv {
			continue
		}
		if v := checkOpen(k.Private, sealedValue, plain, fmt.Sprintf("key:wrong@%d", i)); v != nil {
			return v
		}
		var err error
		guard(func() { _, err = learn.Decrypt(k.Private, sealedValue) })
		if ctx != nil {
			ctx.Inc("evaluations", 1)
			ctx.Inc("corrupt:key:wrong", 1)
			if err == nil {
				ctx.Inc("wrong_key_opened_to_original", 1)
			}
		}
	}
	for _, bad := range []string{"", "AAAA", "not base64!", strings.Repeat("A", 200)} {
		if v := checkOpen(bad, sealedValue, plain, "key:garbage"); v != nil {
			return v
		}
	}
	return nil
}

// runSplice: two answers are sealed one after the other for the same key in this
// process (after 0-2 others), as sealing a course does. Then every value made of a
// head of one stored value and the tail of the other is opened. Such a value is an
// altered form of BOTH stored values, so unless the two answers are equal it must be
// rejected: opening to either answer means an altered value yielded an answer that
// is not the original of the value it was made from.
func (d *D) runSplice(sc *core.Scenario, ctx *core.Ctx) *core.Violation {
	plainA := getPlain(sc)
	pb, _ := base64.StdEncoding.DecodeString(sc.Sealed["plaintext2_b64"])
	plainB := string(pb)
	pub, priv := sc.Sealed["public_key"], sc.Sealed["private_key"]
	sealedA, sealedB := sc.Sealed["sealed_value"], sc.Sealed["sealed_value2"]
	if sealedA == "" || sealedB == "" {
		var errA, errB error
		if p := guard(func() {
			withEntropy(&entropy{r: prng.Derive(sc.Seed, uint64(sc.Index), 7), limit: -1}, func() {
				var n int
				fmt.Sscan(sc.Sealed["warmup"], &n) //nolint:errcheck
				for i := 0; i < n; i++ {
					learn.Encrypt(pub, fmt.Sprint("warm-up ", i)) //nolint:errcheck
				}
				sealedA, errA = learn.Encrypt(pub, plainA)
				sealedB, errB = learn.Encrypt(pub, plainB)
			})
		}); p != "" {
			return &core.Violation{Oracle: "no-panic", Signature: "panic:encrypt", Expected: "sealing never crashes", Observed: map[string]any{"panic": p}, Match: map[string]string{"oracle": "panic"}}
		}
		if errA != nil || errB != nil {
			return &core.Violation{Oracle: "roundtrip", Signature: "encrypt-error", Expected: "sealing succeeds for every text",
				Observed: map[string]any{"error": fmt.Sprint(errA, errB)}, Match: map[string]string{"oracle": "roundtrip"}}
		}
		sc.Sealed["sealed_value"], sc.Sealed["sealed_value2"] = sealedA, sealedB // stored so that replay does not depend on re-encryption
	}
	// both still open to their own answers (sealing the second must not have disturbed the first)
	if v := checkOpen(priv, sealedA, plainA, "none"); v != nil {
		return v
	}
	if v := checkOpen(priv, sealedB, plainB, "none"); v != nil {
		return v
	}
	for _, sv := range []struct{ v, p string }{{sealedA, plainA}, {sealedB, plainB}} {
		got, err := learn.Decrypt(priv, sv.v)
		if err != nil || got != sv.p {
			return &core.Violation{Oracle: "roundtrip", Signature: "roundtrip-differs:second-seal", Expected: "unsealing with the matching private key returns the original answer, also when other values were sealed in the same process",
				Observed: map[string]any{"error": fmt.Sprint(err), "plaintext": short(sv.p), "got": short(got)}, Match: map[string]string{"oracle": "roundtrip"}}
		}
	}
	rawA, _ := base64.StdEncoding.DecodeString(sealedA)
	rawB, _ := base64.StdEncoding.DecodeString(sealedB)
	try := func(dir string, pos int) *core.Violation {
		head, tail := rawA, rawB
		if dir == "BA" {
			head, tail = rawB, rawA
		}
		if pos > len(head) || pos > len(tail) {
			return nil
		}
		sp := base64.StdEncoding.EncodeToString(append(append([]byte(nil), head[:pos]...), tail[pos:]...))
		if sp == sealedA || sp == sealedB {
			return nil
		}
		var got string
		var err error
		what := fmt.Sprintf("splice:%s@%d", dir, pos)
		if p := guard(func() { got, err = learn.Decrypt(priv, sp) }); p != "" {
			return &core.Violation{Oracle: "no-panic", Signature: "panic:decrypt", Expected: "opening a damaged sealed value never crashes",
				Observed: map[string]any{"panic": p, "damage": what}, Match: map[string]string{"oracle": "panic"}}
		}
		if ctx != nil {
			ctx.Inc("evaluations", 1)
			ctx.Inc("corrupt:splice:head-of-one-tail-of-another", 1)
			ctx.Distinct(prng.HashString(sp))
			ctx.Sched(prng.HashString(fmt.Sprint("splice", dir, pos, len(rawA), len(rawB))))
		}
		if err == nil && !(got == plainA && got == plainB) {
			return &core.Violation{Oracle: "reject-or-original", Signature: "different-plaintext:splice",
				Expected: "an altered sealed value is rejected or still yields the original answer – never a different one; a value made of the head of one stored value and the tail of another is an altered form of both",
				Observed: map[string]any{"damage": what, "answer_of_head_value": short(map[string]string{"AB": plainA, "BA": plainB}[dir]), "answer_of_tail_value": short(map[string]string{"AB": plainB, "BA": plainA}[dir]), "opened_to": short(got)},
				Match:    map[string]string{"oracle": "different-plaintext"}}
		}
		return nil
	}
	if one := sc.Sealed["corruption"]; one != "" {
		var dir string
		var pos int
		fmt.Sscanf(one, "splice %s %d", &dir, &pos) //nolint:errcheck
		return try(dir, pos)
	}
	if ctx != nil {
		ctx.Inc("evaluations", 1)
		ctx.Inc("splice_pairs", 1)
	}
	// cut positions inside both values only: a whole value followed by foreign bytes is
	// "trailing garbage", which the single-value enumeration covers
	n := len(rawA)
	if len(rawB) < n {
		n = len(rawB)
	}
	for pos := 1; pos < n; pos++ {
		core.Heartbeat()
		for _, dir := range []string{"AB", "BA"} {
			if v := try(dir, pos); v != nil {
				sc.Sealed["corruption"] = fmt.Sprintf("splice %s %d", dir, pos)
				return v
			}
		}
	}
	return nil
}

func (d *D) runRoundtrip(sc *core.Scenario, ctx *core.Ctx) *core.Violation {
	plain := getPlain(sc)
	pub, priv := sc.Sealed["public_key"], sc.Sealed["private_key"]
	var sealedValue, got string
	var err error
	if p := guard(func() {
		withEntropy(&entropy{r: prng.Derive(sc.Seed, uint64(sc.Index), 2), limit: -1}, func() { sealedValue, err = learn.Encrypt(pub, plain) })
	}); p != "" {
		return &core.Violation{Oracle: "no-panic", Signature: "panic:encrypt", Expected: "sealing never crashes", Observed: map[string]any{"panic": p}, Match: map[string]string{"oracle": "panic"}}
	}
	if err != nil {
		return &core.Violation{Oracle: "roundtrip", Signature: "encrypt-error", Expected: "sealing succeeds for every text",
			Observed: map[string]any{"error": err.Error(), "plaintext": short(plain)}, Match: map[string]string{"oracle": "roundtrip"}}
	}
	if p := guard(func() { got, err = learn.Decrypt(priv, sealedValue) }); p != "" {
		return &core.Violation{Oracle: "no-panic", Signature: "panic:decrypt", Expected: "unsealing never crashes", Observed: map[string]any{"panic": p}, Match: map[string]string{"oracle": "panic"}}
	}
	if err != nil || got != plain {
		return &core.Violation{Oracle: "roundtrip", Signature: "roundtrip-differs", Expected: "unsealing with the matching private key returns the original answer",
			Observed: map[string]any{"error": fmt.Sprint(err), "plaintext": short(plain), "got": short(got), "sealed_value": sealedValue}, Match: map[string]string{"oracle": "roundtrip"}}
	}
	if ctx != nil {
		ctx.Inc("evaluations", 1)
		ctx.Inc("roundtrips", 1)
		ctx.Inc(fmt.Sprintf("roundtrip_len_bucket:%d", bucket(len(plain))), 1)
		ctx.Distinct(prng.HashString("rt" + plain + pub))
	}
	// front-matter level: Seal then Unseal restores Answer; both are idempotent
	if strings.ContainsAny(plain, "\x00\xff\n\t:#-'") || plain == "" || strings.TrimSpace(plain) != plain || !isLetters(plain) {
		return nil // front matter answers are letters / short texts; YAML-hostile texts are exercised at the Encrypt level
	}
	return d.frontmatterRoundtrip(sc, ctx, plain, pub, priv)
}

func isLetters(s string) bool {
	for _, p := range strings.Split(s, ",") {
		p = strings.TrimSpace(p)
		if len(p) != 1 || p[0] < 'a' || p[0] > 'e' {
			return false
		}
	}
	return true
}

func bucket(n int) int {
	b := 1
	for b < n {
		b *= 10
	}
	return b
}

func (d *D) workdir() string {
	if d.dir == "" {
		base := "/dev/shm"
		if st, err := os.Stat(base); err != nil || !st.IsDir() {
			base = ""
		}
		dir, err := os.MkdirTemp(base, "evyverif-c20-")
		if err != nil {
			dir, _ = os.MkdirTemp("", "evyverif-c20-")
		}
		d.dir = dir
	}
	return d.dir
}

// Cleanup removes the work directory.
func (d *D) Cleanup() {
	if d.dir != "" {
		os.RemoveAll(d.dir) //nolint:errcheck
		d.dir = ""
	}
}

// question builds a question file. matching bit i set = choice i produces the question's output.
func questionMD(answerLine string, multi bool, n, matching, form int) string {
	at := "single-choice"
	if multi {
		at = "multiple-choice"
	}
	var b strings.Builder
	fmt.Fprintf(&b, "---\ntype: question\ndifficulty: easy\nanswer-type: %s\n%s\n---\n\n## Generated question\n\nWhat does this program output?\n\n", at, answerLine)
	switch form {
	case 0:
		b.WriteString("```evy\nprint \"out\" 1+1\n```\n\nChoose:\n\n")
	case 1:
		b.WriteString("```evy\nx := 2\nprint \"out\" x\n```\n\nChoose:\n\n")
	default:
		// the question is the output as text, the choices are programs that are really run
		b.WriteString("```\nout 2\n```\n\nWhich program prints this?\n\n")
	}
	for i := 0; i < n; i++ {
		match := matching&(1<<i) != 0
		if form < 2 {
			// inline code: literal output text
			if match {
				b.WriteString("- `out 2`\n")
			} else {
				fmt.Fprintf(&b, "- `%s`\n", []string{"out 3", "Out 2", "out 2.", "out2", "out 22"}[(i+matching)%5])
			}
		} else {
			// evy code blocks that are really run; the wrong ones are near misses
			if match {
				fmt.Fprintf(&b, "- ```evy\n  print \"out\" %d-%d\n  ```\n", 2+i, i)
			} else {
				near := []string{
					"printf \"out 2\"",     // no final newline
					"print \"out 2 \"",     // trailing blank
					"print \"out 2\\n\"",   // one newline too many
					"print \"Out 2\"",      // case
					"print \"out\" 2 \"\"", // trailing separator
					fmt.Sprintf("print \"out\" %d", 3+i),
				}
				fmt.Fprintf(&b, "- ```evy\n  %s\n  ```\n", near[(i+matching+form)%len(near)])
			}
		}
	}
	return b.String()
}

// svgQuestion writes a picture question: the question is an evy:svg link, the
// choices are evy:source links to programs that are really run. Wrong choices
// include programs that draw exactly the question's picture and THEN fail, that
// do not parse, and that draw nothing.
func (d *D) svgQuestion(answerLine string, multi bool, n, matching, variant int) string {
	d.n++
	dir := fmt.Sprintf("pic%d", d.n%50)
	abs := filepath.Join(d.workdir(), dir)
	os.RemoveAll(abs)       //nolint:errcheck
	os.MkdirAll(abs, 0o755) //nolint:errcheck
	picture := []string{"move 10 10\ncircle 5\n", "move 20 30\nline 40 50\nrect 5 5\n", "color \"red\"\nmove 50 50\ncircle 10\nmove 0 0\nline 100 100\n"}[variant%3]
	same := []string{picture, "// another way to write it\n" + picture, "x := 0\nx = x + 1\n" + picture}
	wrong := []string{
		picture + "a := [1]\nprint a[5]\n", // the same picture, then a run-time error
		picture + "print 1 +\n",            // does not parse
		"",                                 // draws nothing
		picture + "move 1 1\ncircle 1\n",   // one shape too many
		"width 3\n" + picture,              // slightly different
		picture + "exit 3\n",
	}
	if variant%4 == 3 {
		// a picture with text: near misses are texts with characters that mean something in the
		// picture's own notation, and texts that spell out what the other picture contains
		picture = "move 10 50\ntext \"a\"\nmove 30 50\ntext \"b\"\n"
		same = []string{picture, "// same\n" + picture, "s := \"a\"\nmove 10 50\ntext s\nmove 30 50\ntext \"b\"\n"}
		wrong = []string{
			"move 10 50\ntext \"a</text><text x=\\\"300\\\" y=\\\"500\\\">b\"\n",
			"move 10 50\ntext \"a\"\nmove 30 50\ntext \"b \"\n",
			"move 10 50\ntext \"a&amp;\"\nmove 30 50\ntext \"b\"\n",
			"move 10 50\ntext \"a\"\nmove 30 50\ntext \"<b>\"\n",
			"move 10 50\ntext \"ab\"\n",
			"move 10 50\ntext \"a\"\nmove 30 50\ntext \"B\"\n",
			"move 10 50\ntext \"a\"\nmove 30 50\ntext \"b\"\ntext \"\"\n",
			"move 10 50\ntext \"a\\\"\"\nmove 30 50\ntext \"b\"\n",
		}
	}
	os.WriteFile(filepath.Join(abs, "q.evy"), []byte(picture), 0o644) //nolint:errcheck
	at := "single-choice"
	if multi {
		at = "multiple-choice"
	}
	var b strings.Builder
	fmt.Fprintf(&b, "---\ntype: question\ndifficulty: easy\nanswer-type: %s\n%s\n---\n\n## Generated picture question\n\nWhich program draws this?\n\n[question](%s/q.evy \"evy:svg\")\n\nChoose:\n\n", at, answerLine, dir)
	for i := 0; i < n; i++ {
		src := wrong[(i+matching+variant)%len(wrong)]
		if matching&(1<<i) != 0 {
			src = same[(i+variant)%len(same)]
		}
		os.WriteFile(filepath.Join(abs, fmt.Sprintf("c%d.evy", i)), []byte(src), 0o644) //nolint:errcheck
		fmt.Fprintf(&b, "- [answer](%s/c%d.evy \"evy:source\")\n", dir, i)
	}
	return b.String()
}

// longQuestion: question and choices are links to programs whose text output is far longer than
// any buffer someone might think sufficient (77 kB) and differs only in the last line.
func (d *D) longQuestion(answerLine string, multi bool, n, matching int) string {
	dir := "long"
	abs := filepath.Join(d.workdir(), dir)
	os.RemoveAll(abs)       //nolint:errcheck
	os.MkdirAll(abs, 0o755) //nolint:errcheck
	prog := func(last string) string {
		return "for range 7000\n    print \"0123456789\"\nend\nprint \"" + last + "\"\n"
	}
	os.WriteFile(filepath.Join(abs, "q.evy"), []byte(prog("end A")), 0o644) //nolint:errcheck
	at := "single-choice"
	if multi {
		at = "multiple-choice"
	}
	var b strings.Builder
	fmt.Fprintf(&b, "---\ntype: question\ndifficulty: easy\nanswer-type: %s\n%s\n---\n\n## Generated question\n\nWhich program prints this?\n\n[question](%s/q.evy \"evy:text\")\n\nChoose:\n\n", at, answerLine, dir)
	for i := 0; i < n; i++ {
		last := "end A"
		if matching&(1<<i) == 0 {
			last = []string{"end B", "end a", "end A ", "end"}[(i+matching)%4]
		}
		os.WriteFile(filepath.Join(abs, fmt.Sprintf("c%d.evy", i)), []byte(prog(last)), 0o644) //nolint:errcheck
		fmt.Fprintf(&b, "- [answer](%s/c%d.evy \"evy:source\")\n", dir, i)
	}
	return b.String()
}

// mixedQuestion writes a question whose question and choices are links to programs that
// print AND draw. kind "text" asks for the text output (evy:text), kind "svg" for the
// picture (evy:svg); the program files are byte-identical in both kinds. matchT / matchP say
// which choices have the question's text / the question's picture.
func (d *D) mixedQuestion(answerLine string, multi bool, n, matchT, matchP, variant int, kind string) string {
	dir := fmt.Sprintf("mix%d", variant%7)
	abs := filepath.Join(d.workdir(), dir)
	os.RemoveAll(abs)       //nolint:errcheck
	os.MkdirAll(abs, 0o755) //nolint:errcheck
	word := []string{"dot", "ring", "o"}[variant%3]
	radius := 5 + variant%4
	prog := func(text string, r int) string { return fmt.Sprintf("print %q\nmove 50 50\ncircle %d\n", text, r) }
	os.WriteFile(filepath.Join(abs, "q.evy"), []byte(prog(word, radius)), 0o644) //nolint:errcheck
	at := "single-choice"
	if multi {
		at = "multiple-choice"
	}
	var b strings.Builder
	qTitle, cTitle := kind, "source"
	switch kind {
	case "svg-src": // the question is the program itself, the choices are pictures
		qTitle, cTitle = "source", "svg"
	case "text-src": // the question is the program itself, the choices are text outputs
		qTitle, cTitle = "source", "text"
	}
	fmt.Fprintf(&b, "---\ntype: question\ndifficulty: easy\nanswer-type: %s\n%s\n---\n\n## Generated question\n\nWhich program gives this?\n\n[question](%s/q.evy \"evy:%s\")\n\nChoose:\n\n", at, answerLine, dir, qTitle)
	for i := 0; i < n; i++ {
		text, r := word, radius
		if matchT&(1<<i) == 0 {
			text = []string{word + ".", strings.ToUpper(word[:1]) + word[1:], word + " "}[(i+variant)%3]
		}
		if matchP&(1<<i) == 0 {
			r = radius + 1 + (i+variant)%2
		}
		src := prog(text, r)
		if (i+variant)%2 == 1 {
			src = fmt.Sprintf("// choice %d\n", i) + src // same outputs, different source text
		}
		os.WriteFile(filepath.Join(abs, fmt.Sprintf("c%d.evy", i)), []byte(src), 0o644) //nolint:errcheck
		fmt.Fprintf(&b, "- [answer](%s/c%d.evy \"evy:%s\")\n", dir, i, cTitle)
	}
	return b.String()
}

// runMany: a question with 26 to 53 choices (inline code, nothing is run). Matching sets and
// markings are taken from patterns around the 26th, 27th and 52nd choice; a marking can only name
// the first 26 choices. Verify()==nil iff the marked choices are precisely the matching ones.
func (d *D) runMany(sc *core.Scenario, ctx *core.Ctx) *core.Violation {
	var n, pat int
	fmt.Sscan(sc.Sealed["choices"], &n)   //nolint:errcheck
	fmt.Sscan(sc.Sealed["pattern"], &pat) //nolint:errcheck
	multi := sc.Sealed["multi"] == "1"
	matchSets := [][]int{{0}, {0, 26}, {1, 27}, {26}, {2, 5}, {25}, {25, 51}, {0, 52}}
	var matching []int
	for _, i := range matchSets[pat%len(matchSets)] {
		if i < n {
			matching = append(matching, i)
		}
	}
	markings := [][]int{{0}, {1}, {2, 5}, {25}, {0, 1}, {0, 25}}
	for _, marked := range markings {
		if !multi && len(marked) != 1 {
			continue
		}
		var ls []string
		for _, i := range marked {
			ls = append(ls, string(rune('a'+i)))
		}
		ans := strings.Join(ls, ", ")
		at := "single-choice"
		if multi {
			at = "multiple-choice"
		}
		var b strings.Builder
		fmt.Fprintf(&b, "---\ntype: question\ndifficulty: easy\nanswer-type: %s\nanswer: %s\n---\n\n## Generated question\n\nWhat does this program output?\n\n```evy\nprint \"out\" 1+1\n```\n\nChoose:\n\n", at, ans)
		for i := 0; i < n; i++ {
			isMatch := false
			for _, m := range matching {
				if m == i {
					isMatch = true
				}
			}
			if isMatch {
				b.WriteString("- `out 2`\n")
			} else {
				fmt.Fprintf(&b, "- `no %d`\n", i)
			}
		}
		content := b.String()
		verr, berr, p := d.verify(content, "")
		if ctx != nil {
			ctx.Inc("evaluations", 1)
			ctx.Inc("verifications", 1)
			ctx.Inc("verifications_of_questions_with_more_choices_than_letters", 1)
			ctx.Distinct(prng.HashString(fmt.Sprint("many", n, matching, marked, multi)))
		}
		obs := map[string]any{"choices": n, "matching_choice_indices": matching, "marked_correct": ans, "multiple_choice": multi}
		if p != "" {
			obs["panic"] = p
			return &core.Violation{Oracle: "no-panic", Signature: "panic:verify", Expected: "verification never crashes", Observed: obs, Match: map[string]string{"oracle": "panic"}}
		}
		if berr != nil {
			if ctx != nil {
				ctx.Inc("many_choice_questions_refused_while_loading", 1)
			}
			continue // refusing such a question altogether is a way of not accepting it
		}
		want := len(marked) == len(matching)
		if want {
			for i := range marked {
				if marked[i] != matching[i] {
					want = false
				}
			}
		}
		if (verr == nil) != want {
			obs["verify_error"] = fmt.Sprint(verr)
			sig := "accepted-wrong-marking"
			if want {
				sig = "rejected-right-marking"
			}
			return &core.Violation{Oracle: "verify-iff", Signature: sig + ":many-choices",
				Expected: "verification accepts a question exactly when the marked choices are precisely the choices whose output equals the question's output",
				Observed: obs, Match: map[string]string{"oracle": "verify-iff", "case": sig}}
		}
	}
	return nil
}

// runMixed: verification is a function of the question file. The same program files
// are used by a text question and by a picture question, one after the other in this
// process, for every subset of marked answers; each verdict is compared with the
// reference for its own kind of output.
func (d *D) runMixed(sc *core.Scenario, ctx *core.Ctx) *core.Violation {
	var n, matchT, matchP, variant int
	fmt.Sscan(sc.Sealed["choices"], &n)           //nolint:errcheck
	fmt.Sscan(sc.Sealed["matching"], &matchT)     //nolint:errcheck
	fmt.Sscan(sc.Sealed["matching_pic"], &matchP) //nolint:errcheck
	fmt.Sscan(sc.Sealed["variant"], &variant)     //nolint:errcheck
	multi := sc.Sealed["multi"] == "1"
	kinds := []string{"text", "svg", "svg-src", "text-src"}
	if sc.Sealed["order"] == "picture-first" {
		kinds = []string{"svg-src", "svg", "text-src", "text"}
	}
	for marked := 1; marked < 1<<n; marked++ {
		if !multi && marked&(marked-1) != 0 {
			continue
		}
		ans := letters(marked, n)
		for _, kind := range kinds {
			matching := matchT
			if kind == "svg" || kind == "svg-src" {
				matching = matchP
			}
			content := d.mixedQuestion("answer: "+ans, multi, n, matchT, matchP, variant, kind)
			verr, berr, p := d.verify(content, "")
			if ctx != nil {
				ctx.Inc("evaluations", 1)
				ctx.Inc("verifications", 1)
				ctx.Inc("verifications_of_text_and_picture_questions_sharing_programs", 1)
				ctx.Distinct(prng.HashString(fmt.Sprint("mixed", n, matchT, matchP, marked, multi, kind, variant%12, sc.Sealed["order"])))
			}
			obs := map[string]any{"choices": n, "asked_for": kind, "order": sc.Sealed["order"], "choices_with_the_question_text": letters(matchT, n), "choices_with_the_question_picture": letters(matchP, n),
				"marked_correct": ans, "multiple_choice": multi, "question_file": content}
			if p != "" {
				obs["panic"] = p
				return &core.Violation{Oracle: "no-panic", Signature: "panic:verify", Expected: "verification never crashes", Observed: obs, Match: map[string]string{"oracle": "panic"}}
			}
			if berr != nil {
				obs["error"] = berr.Error()
				return &core.Violation{Oracle: "verify-iff", Signature: "question-rejected", Expected: "a well-formed generated question file is accepted by NewQuestionModel", Observed: obs, Match: map[string]string{"oracle": "build"}}
			}
			want := marked == matching
			if (verr == nil) != want {
				obs["verify_error"] = fmt.Sprint(verr)
				sig := "accepted-wrong-marking"
				if want {
					sig = "rejected-right-marking"
				}
				return &core.Violation{Oracle: "verify-iff", Signature: sig + ":shared-programs",
					Expected: "verification accepts a question exactly when the marked choices are precisely the choices whose output equals the question's output – whatever other questions were verified before in the same process",
					Observed: obs, Match: map[string]string{"oracle": "verify-iff", "case": sig}}
			}
		}
	}
	return nil
}

func letters(set int, n int) string {
	var ls []string
	for i := 0; i < n; i++ {
		if set&(1<<i) != 0 {
			ls = append(ls, string(rune('a'+i)))
		}
	}
	return strings.Join(ls, ", ")
}

func (d *D) writeQ(content string) string {
	d.n++
	p := filepath.Join(d.workdir(), fmt.Sprintf("q%d.md", d.n%50))
	if err := os.WriteFile(p, []byte(content), 0o644); err != nil {
		panic(err)
	}
	return p
}

func (d *D) verify(content, priv string) (verr error, buildErr error, panicked string) {
	core.HeartbeatNow()
	path := d.writeQ(content)
	panicked = guard(func() {
		var opts []learn.Option
		if priv != "" {
			opts = append(opts, learn.WithPrivateKey(priv))
		}
		m, err := learn.NewQuestionModel(path, opts...)
		if err != nil {
			buildErr = err
			return
		}
		verr = m.Verify()
	})
	return
}

func (d *D) runQuestion(sc *core.Scenario, ctx *core.Ctx) *core.Violation {
	var n, matching, form int
	fmt.Sscan(sc.Sealed["choices"], &n)         //nolint:errcheck
	fmt.Sscan(sc.Sealed["matching"], &matching) //nolint:errcheck
	fmt.Sscan(sc.Sealed["form"], &form)         //nolint:errcheck
	multi := sc.Sealed["multi"] == "1"
	sealedFM := sc.Sealed["sealed_fm"] == "1"
	pub, priv := sc.Sealed["public_key"], sc.Sealed["private_key"]
	// every subset of marked answers - including letters for which there is no choice (one
	// and two past the last one): such a marking is never "precisely the matching choices"
	for marked := 1; marked < 1<<(n+2); marked++ {
		if !multi && marked&(marked-1) != 0 {
			continue // single-choice: exactly one letter
		}
		beyond := marked>>n != 0
		if beyond && marked>>n == 3 && marked&((1<<n)-1) != 0 && marked&((1<<n)-1) != matching {
			continue // keep the number of cases down: both extra letters only alone or with the matching set
		}
		ans := letters(marked, n+2)
		if multi && strings.Contains(ans, ",") {
			// the marking is a SET of letters: the order in which the author wrote them, a
			// repeated letter and the spacing after the comma do not change it
			ls := strings.Split(ans, ", ")
			switch (marked + n + form) % 4 {
			case 1: // descending
				for i, j := 0, len(ls)-1; i < j; i, j = i+1, j-1 {
					ls[i], ls[j] = ls[j], ls[i]
				}
				ans = strings.Join(ls, ", ")
			case 2: // rotated, no blank after the comma
				ans = strings.Join(append(ls[1:], ls[0]), ",")
			case 3: // one letter written twice
				ans = strings.Join(append(ls, ls[0]), ", ")
			}
		}
		line := "answer: " + ans
		var sealedValue string
		if sealedFM {
			var err error
			withEntropy(&entropy{r: prng.Derive(sc.Seed, uint64(sc.Index), uint64(marked)), limit: -1}, func() { sealedValue, err = learn.Encrypt(pub, ans) })
			if err != nil {
				return &core.Violation{Oracle: "roundtrip", Signature: "encrypt-error", Expected: "sealing succeeds", Observed: map[string]any{"error": err.Error()}, Match: map[string]string{"oracle": "roundtrip"}}
			}
			line = "sealed-answer: " + sealedValue
		}
		content := questionMD(line, multi, n, matching, form)
		if form >= 4 && form != 8 {
			content = d.svgQuestion(line, multi, n, matching, form)
		}
		if form == 8 {
			content = d.longQuestion(line, multi, n, matching)
		}
		usePriv := ""
		if sealedFM {
			usePriv = priv
		}
		verr, berr, p := d.verify(content, usePriv)
		if ctx != nil {
			ctx.Inc("evaluations", 1)
			ctx.Inc("verifications", 1)
			ctx.Distinct(prng.HashString(fmt.Sprint("q", n, matching, marked, multi, form, sealedFM)))
		}
		obs := map[string]any{"choices": n, "choices_matching_the_question_output": letters(matching, n), "marked_correct": ans, "multiple_choice": multi, "sealed": sealedFM, "question_file": content}
		if p != "" {
			obs["panic"] = p
			return &core.Violation{Oracle: "no-panic", Signature: "panic:verify", Expected: "verification never crashes", Observed: obs, Match: map[string]string{"oracle": "panic"}}
		}
		if berr != nil && beyond {
			if ctx != nil {
				ctx.Inc("markings_beyond_the_choices_rejected_while_loading", 1)
			}
			continue // a letter without a choice may be refused as early as this
		}
		if berr != nil {
			obs["error"] = berr.Error()
			return &core.Violation{Oracle: "verify-iff", Signature: "question-rejected", Expected: "a well-formed generated question file is accepted by NewQuestionModel", Observed: obs, Match: map[string]string{"oracle": "build"}}
		}
		if ctx != nil && beyond {
			ctx.Inc("verifications_with_a_marked_letter_beyond_the_choices", 1)
		}
		want := marked == matching
		if (verr == nil) != want {
			obs["verify_error"] = fmt.Sprint(verr)
			sig := "accepted-wrong-marking"
			if want {
				sig = "rejected-right-marking"
			}
			if beyond {
				sig += ":letter-without-choice"
			}
			sc.Sealed["marked"] = fmt.Sprint(marked)
			return &core.Violation{Oracle: "verify-iff", Signature: sig,
				Expected: "verification accepts a question exactly when the marked choices are precisely the choices whose output equals the question's output",
				Observed: obs, Match: map[string]string{"oracle": "verify-iff", "case": sig}}
		}
		if sealedFM && (form < 4 || form == 8) && form != 8 {
			// corrupt the sealed front matter value: Verify must fail to unseal, or give the verdict of the uncorrupted file
			cs := corruptions(sealedValue, false)
			r := prng.Derive(sc.Seed, uint64(sc.Index), uint64(marked), 77)
			for t := 0; t < 5; t++ {
				c := cs[r.Intn(len(cs))]
				damaged := apply(sealedValue, c)
				if damaged == sealedValue || strings.ContainsAny(damaged, "\n ") {
					continue
				}
				content := questionMD("sealed-answer: "+damaged, multi, n, matching, form)
				verr2, berr2, p2 := d.verify(content, priv)
				if ctx != nil {
					ctx.Inc("evaluations", 1)
					ctx.Inc("verifications_of_corrupted_sealed_files", 1)
				}
				obs["damage"] = c.String()
				if p2 != "" {
					obs["panic"] = p2
					return &core.Violation{Oracle: "no-panic", Signature: "panic:verify-corrupted", Expected: "verification never crashes", Observed: obs, Match: map[string]string{"oracle": "panic"}}
				}
				if berr2 != nil {
					continue // rejected while loading: fine
				}
				wrong := errors.Is(verr2, learn.ErrWrongAnswer)
				if (verr2 == nil && !want) || (wrong && want) {
					// the damaged value was opened to some OTHER answer and that answer was judged
					obs["verify_error"] = fmt.Sprint(verr2)
					sc.Sealed["marked"] = fmt.Sprint(marked)
					return &core.Violation{Oracle: "verify-corrupted", Signature: "corrupted-sealed-file-judged-as-another-answer",
						Expected: "a corrupted sealed answer makes verification fail to unseal, or gives the verdict of the uncorrupted file", Observed: obs, Match: map[string]string{"oracle": "verify-corrupted"}}
				}
			}
			delete(obs, "damage")
		}
	}
	return nil
}

func (d *D) frontmatterRoundtrip(sc *core.Scenario, ctx *core.Ctx, plain, pub, priv string) *core.Violation {
	multi := strings.Contains(plain, ",")
	n := 5
	content := questionMD("answer: "+plain, multi, n, 0, 0)
	path := d.writeQ(content)
	var v *core.Violation
	p := guard(func() {
		m, err := learn.NewQuestionModel(path, learn.WithPrivateKey(priv))
		if err != nil {
			return // e.g. invalid single-choice answer: not this oracle's business
		}
		fail := func(what string) {
			v = &core.Violation{Oracle: "seal-unseal", Signature: "frontmatter:" + what, Expected: "Seal then Unseal restores the answer; Seal on a sealed and Unseal on an unsealed record are the identity",
				Observed: map[string]any{"step": what, "answer": plain, "answer_now": m.Frontmatter.Answer, "sealed_now": short(m.Frontmatter.SealedAnswer)}, Match: map[string]string{"oracle": "seal-unseal"}}
		}
		if err := m.Unseal(); err != nil || m.Frontmatter.Answer != plain || m.Frontmatter.SealedAnswer != "" {
			fail("unseal-on-unsealed")
			return
		}
		var err2 error
		withEntropy(&entropy{r: prng.Derive(sc.Seed, uint64(sc.Index), 3), limit: -1}, func() { err2 = m.Seal(pub) })
		if err2 != nil || m.Frontmatter.Answer != "" || m.Frontmatter.SealedAnswer == "" {
			fail("seal")
			return
		}
		s1 := m.Frontmatter.SealedAnswer
		if err := m.Seal(pub); err != nil || m.Frontmatter.SealedAnswer != s1 || m.Frontmatter.Answer != "" {
			fail("seal-on-sealed")
			return
		}
		if err := m.Unseal(); err != nil || m.Frontmatter.Answer != plain || m.Frontmatter.SealedAnswer != "" {
			fail("unseal")
			return
		}
	})
	if ctx != nil {
		ctx.Inc("evaluations", 1)
		ctx.Inc("frontmatter_roundtrips", 1)
	}
	if p != "" {
		return &core.Violation{Oracle: "no-panic", Signature: "panic:seal", Expected: "sealing never crashes", Observed: map[string]any{"panic": p}, Match: map[string]string{"oracle": "panic"}}
	}
	return v
}

func (d *D) runEntropy(sc *core.Scenario, ctx *core.Ctx) *core.Violation {
	plain := getPlain(sc)
	pub, priv := sc.Sealed["public_key"], sc.Sealed["private_key"]
	limit := 0
	fmt.Sscan(sc.Sealed["entropy_limit"], &limit) //nolint:errcheck
	e := &entropy{r: prng.Derive(sc.Seed, uint64(sc.Index), 4), limit: limit, short: sc.Sealed["entropy_short"] == "1"}
	var sealedValue string
	var err error
	if p := guard(func() { withEntropy(e, func() { sealedValue, err = learn.Encrypt(pub, plain) }) }); p != "" {
		return &core.Violation{Oracle: "no-panic", Signature: "panic:encrypt-entropy", Expected: "a failing entropy source makes sealing fail, not crash",
			Observed: map[string]any{"panic": p, "entropy_limit": limit}, Match: map[string]string{"oracle": "panic"}}
	}
	if ctx != nil {
		ctx.Inc("evaluations", 1)
		if err != nil {
			ctx.Inc("entropy_fault_made_encrypt_fail", 1)
		} else {
			ctx.Inc("entropy_fault_not_reached", 1)
		}
		ctx.Distinct(prng.HashString(fmt.Sprint("ent", limit, e.short, plain)))
	}
	if err != nil {
		return nil
	}
	got, derr := learn.Decrypt(priv, sealedValue)
	if derr != nil || got != plain {
		return &core.Violation{Oracle: "entropy", Signature: "sealed-under-entropy-fault-opens-wrong",
			Expected: "with a failing or short entropy source Encrypt returns an error, never a sealed value that later opens to something else",
			Observed: map[string]any{"entropy_limit": limit, "short_reads": e.short, "decrypt_error": fmt.Sprint(derr), "got": short(got), "plaintext": short(plain)}, Match: map[string]string{"oracle": "entropy"}}
	}
	return nil
}

var fileTexts = []string{"print \"hi\"\n", "a: b", "- item", "# not a comment", "'single'", "\"double\"", " leading", "trailing ", "tab\there", "| pipe", "> fold", "---", "...",
	"null", "true", "123", "~", "1e3", "0x10", "yes", "é日本𝄞", "line1\nline2", "line1\n\nline3\n", "\nstarts with newline", "ends with two newlines\n\n", "{a: 1}", "[1, 2]", "&anchor", "*alias", "!tag", "%percent", "@at", "`tick`",
	"key: value: more", "multi\n  indented\n    more\n", "x := 1\nwhile x < 3\n    x = x + 1\nend\nprint x\n", "windows\r\nline", "a\u00a0b", "\ufeffbom"}

func fileText(r *prng.R) string {
	t := fileTexts[r.Intn(len(fileTexts))]
	switch r.Intn(4) {
	case 0:
		t = t + fileTexts[r.Intn(len(fileTexts))]
	case 1:
		t = strings.Repeat(t, r.Range(2, 40))
	case 2:
		t = t + "\n" + strings.Repeat("y", r.Range(60, 400))
	}
	return t
}

// runFile: the stored artefact is the question file itself. Load it, seal,
// write it back, load the written file, unseal: the answer must be the one
// that was loaded in the first place; writing the unsealed form back and
// loading once more must not change it either.
func (d *D) runFile(sc *core.Scenario, ctx *core.Ctx) *core.Violation {
	text := getPlain(sc)
	pub, priv := sc.Sealed["public_key"], sc.Sealed["private_key"]
	fm, err := yaml.Marshal(map[string]string{"type": "question", "difficulty": "easy", "answer-type": "text", "verification": "none", "answer": text})
	if err != nil {
		return nil
	}
	content := "---\n" + string(fm) + "---\n\n## Generated\n\nWhat is printed?\n\n```\nout\n```\n\nAnswer:\n\n```\nout\n```\n"
	path := d.writeQ(content)
	var v *core.Violation
	step := ""
	fail := func(what string, extra map[string]any) {
		obs := map[string]any{"step": what, "answer_text": short(text)}
		for k, x := range extra { // merged into a map that json sorts
			obs[k] = x
		}
		v = &core.Violation{Oracle: "file-roundtrip", Signature: "file:" + what,
			Expected: "seal, write the file, load it, unseal: the answer is the one that was loaded before sealing", Observed: obs, Match: map[string]string{"oracle": "file-roundtrip", "step": what}}
	}
	p := guard(func() {
		step = "load"
		m, err := learn.NewQuestionModel(path, learn.WithPrivateKey(priv))
		if err != nil {
			return // a text the front matter cannot carry at all: not this oracle's business
		}
		a0 := m.Frontmatter.Answer
		if a0 == "" {
			return
		}
		step = "seal"
		var serr error
		withEntropy(&entropy{r: prng.Derive(sc.Seed, uint64(sc.Index), 9), limit: -1}, func() { serr = m.Seal(pub) })
		if serr != nil {
			fail("seal", map[string]any{"error": serr.Error()})
			return
		}
		step = "write-sealed"
		if err := m.WriteFormatted(); err != nil {
			fail("write-sealed", map[string]any{"error": err.Error()})
			return
		}
		step = "load-sealed"
		m2, err := learn.NewQuestionModel(path, learn.WithPrivateKey(priv))
		if err != nil {
			fail("load-sealed", map[string]any{"error": err.Error()})
			return
		}
		if m2.Frontmatter.Answer != "" || m2.Frontmatter.SealedAnswer == "" {
			fail("load-sealed", map[string]any{"answer_now": short(m2.Frontmatter.Answer)})
			return
		}
		step = "unseal"
		if err := m2.Unseal(); err != nil {
			fail("unseal", map[string]any{"error": err.Error()})
			return
		}
		if m2.Frontmatter.Answer != a0 {
			fail("unseal", map[string]any{"loaded_before_sealing": short(a0), "after_unseal": short(m2.Frontmatter.Answer)})
			return
		}
		step = "write-unsealed"
		if err := m2.WriteFormatted(); err != nil {
			fail("write-unsealed", map[string]any{"error": err.Error()})
			return
		}
		m3, err := learn.NewQuestionModel(path, learn.WithPrivateKey(priv))
		if err != nil {
			fail("load-unsealed", map[string]any{"error": err.Error()})
			return
		}
		if m3.Frontmatter.Answer != a0 {
			fail("load-unsealed", map[string]any{"loaded_before_sealing": short(a0), "after_write_and_load": short(m3.Frontmatter.Answer)})
		}
	})
	if ctx != nil {
		ctx.Inc("evaluations", 1)
		ctx.Inc("file_roundtrips", 1)
		ctx.Distinct(prng.HashString("file" + text))
	}
	if p != "" {
		return &core.Violation{Oracle: "no-panic", Signature: "panic:file-" + step, Expected: "sealing through the stored file never crashes",
			Observed: map[string]any{"panic": p, "step": step, "answer_text": short(text)}, Match: map[string]string{"oracle": "panic"}}
	}
	return v
}

// runHistory drives ONE question model through a seeded sequence of operations
// (verify, unseal, change the answer, seal for this key or another one) and
// checks every step against a three-line reference model: the current
// plaintext answer, whether it is sealed, and for which key.
func (d *D) runHistory(sc *core.Scenario, ctx *core.Ctx) *core.Violation {
	var nops, matching int
	var opSeed uint64
	fmt.Sscan(sc.Sealed["ops"], &nops)          //nolint:errcheck
	fmt.Sscan(sc.Sealed["matching"], &matching) //nolint:errcheck
	fmt.Sscan(sc.Sealed["op_seed"], &opSeed)    //nolint:errcheck
	pub1, priv1 := sc.Sealed["public_key"], sc.Sealed["private_key"]
	pub2 := sc.Sealed["public_key2"]
	if pub2 == pub1 {
		pub2 = ""
	}
	const n = 3
	r := prng.New(opSeed)
	plain := letters(1+r.Intn(7), n)
	sealed := sc.Sealed["start_sealed"] == "1"
	forKey1 := true
	line := "answer: " + plain
	if sealed {
		var sv string
		var err error
		withEntropy(&entropy{r: prng.Derive(sc.Seed, uint64(sc.Index), 11), limit: -1}, func() { sv, err = learn.Encrypt(pub1, plain) })
		if err != nil {
			return nil
		}
		line = "sealed-answer: " + sv
	}
	path := d.writeQ(questionMD(line, true, n, matching, 2))
	var v *core.Violation
	var trace []string
	p := guard(func() {
		m, err := learn.NewQuestionModel(path, learn.WithPrivateKey(priv1))
		if err != nil {
			return
		}
		bad := func(what string, extra map[string]any) {
			obs := map[string]any{"operations": trace, "failed_at": what, "reference_answer": plain, "reference_sealed": sealed, "sealed_for_the_models_key": forKey1,
				"answer_now": m.Frontmatter.Answer, "sealed_now": short(m.Frontmatter.SealedAnswer), "choices_matching": letters(matching, n)}
			for k, x := range extra { // merged into a map that json sorts
				obs[k] = x
			}
			v = &core.Violation{Oracle: "model-history", Signature: "history:" + what,
				Expected: "after any sequence of verify / unseal / change / seal on one question, unsealing returns the answer that was sealed last (or fails for another key) and verification judges that answer",
				Observed: obs, Match: map[string]string{"oracle": "model-history", "step": what}}
		}
		for i := 0; i < nops && v == nil; i++ {
			switch op := r.Intn(5); {
			case op == 0: // verify
				trace = append(trace, "verify")
				err := m.Verify()
				if sealed && !forKey1 {
					if err == nil {
						bad("verify-with-foreign-key-passed", nil)
					}
					continue
				}
				want := plain == letters(matching, n)
				if (err == nil) != want {
					bad("verify", map[string]any{"verify_error": fmt.Sprint(err), "expected_to_pass": want})
				}
			case op == 1: // unseal
				trace = append(trace, "unseal")
				err := m.Unseal()
				switch {
				case !sealed:
					if err != nil || m.Frontmatter.Answer != plain {
						bad("unseal-on-unsealed", map[string]any{"error": fmt.Sprint(err)})
					}
				case forKey1:
					if err != nil || m.Frontmatter.Answer != plain || m.Frontmatter.SealedAnswer != "" {
						bad("unseal", map[string]any{"error": fmt.Sprint(err)})
					}
					sealed = false
				default:
					if err == nil && m.Frontmatter.Answer != plain {
						bad("unseal-foreign-key-gave-another-answer", nil)
					}
					if err == nil {
						sealed = false // opened to the original: allowed by the statement (cannot happen with RSA)
					}
				}
			case op == 2: // change the answer (only possible while unsealed)
				if sealed {
					continue
				}
				plain = letters(1+r.Intn(7), n)
				trace = append(trace, "answer="+plain)
				m.Frontmatter.Answer = plain
			default: // seal, for this model's key or for another one
				pub, mine := pub1, true
				if pub2 != "" && r.Chance(0.3) {
					pub, mine = pub2, false
				}
				trace = append(trace, map[bool]string{true: "seal(own key)", false: "seal(other key)"}[mine])
				var err error
				withEntropy(&entropy{r: prng.Derive(sc.Seed, uint64(sc.Index), uint64(100+i)), limit: -1}, func() { err = m.Seal(pub) })
				if err != nil {
					bad("seal", map[string]any{"error": err.Error()})
					continue
				}
				if !sealed {
					if m.Frontmatter.Answer != "" || m.Frontmatter.SealedAnswer == "" {
						bad("seal-left-plaintext", nil)
					}
					sealed, forKey1 = true, mine
				}
			}
		}
	})
	if ctx != nil {
		ctx.Inc("evaluations", int64(len(trace)))
		ctx.Inc("model_history_operations", int64(len(trace)))
		ctx.Inc("model_histories", 1)
		ctx.Distinct(prng.HashString("hist" + strings.Join(trace, ",")))
		ctx.Sched(prng.HashString(strings.Join(trace, ",")))
	}
	if p != "" {
		return &core.Violation{Oracle: "no-panic", Signature: "panic:model-history", Expected: "no operation sequence crashes", Observed: map[string]any{"panic": p, "operations": trace}, Match: map[string]string{"oracle": "panic"}}
	}
	return v
}

func (d *D) run(sc *core.Scenario, ctx *core.Ctx, tier string) *core.Violation {
	switch sc.Kind {
	case "model-history":
		return d.runHistory(sc, ctx)
	case "file-roundtrip":
		return d.runFile(sc, ctx)
	case "splice":
		return d.runSplice(sc, ctx)
	case "question-mixed":
		return d.runMixed(sc, ctx)
	case "question-many":
		return d.runMany(sc, ctx)
	case "corruption":
		return d.runCorruption(sc, ctx, cfg(tier).allBytes)
	case "roundtrip":
		return d.runRoundtrip(sc, ctx)
	case "entropy":
		return d.runEntropy(sc, ctx)
	case "question":
		return d.runQuestion(sc, ctx)
	}
	return nil
}

// RunItem implements core.Driver.
func (d *D) RunItem(idx int, ctx *core.Ctx) {
	sc := d.Base(idx, ctx)
	sc.Tier = ctx.Tier
	ctx.Inc("items:"+sc.Kind, 1)
	if v := d.run(sc, ctx, ctx.Tier); v != nil {
		ctx.Violate(sc, v)
	}
	if len(ctx.St.Samples) < 3 && (sc.Kind == "corruption" || sc.Kind == "question") {
		s := map[string]any{"kind": sc.Kind}
		for _, k := range []string{"plaintext_b64", "choices", "matching", "multi", "form", "sealed_fm", "sealed_value"} {
			if v := sc.Sealed[k]; v != "" {
				s[k] = short(v)
			}
		}
		ctx.Sample(s, 3)
	}
}

// Check implements core.Driver.
func (d *D) Check(sc *core.Scenario) *core.Violation {
	defer d.Cleanup()
	return d.run(sc, nil, sc.Tier)
}

// Describe implements core.Driver.
func (d *D) Describe(ev *core.Evidence, st *core.Stats) {
	c := st.Counters
	ev.Coverage["rule"] = "one evaluation = one Decrypt of a damaged sealed value / one Encrypt+Decrypt round trip / one Seal-Unseal sequence on a front matter / one Verify of a generated question file; the damage space of each sampled sealed value is enumerated completely for its classes (every single bit flip, byte overwrites, every truncation length, every single-byte deletion and insertion, length-field and segment damage, base64 text damage, every wrong fixture key; for pairs of values sealed one after the other in one process, every head of one joined to the tail of the other); questions are verified for every subset of marked answers; distinct by hash of the damaged value / (question shape, matching set, marked set)"
	ev.Coverage["sealed_values_enumerated"] = c["sealed_values_enumerated"]
	ev.Coverage["exhaustive"] = false
	ev.Coverage["exhaustive_note"] = "exhaustive per sealed value over the single-byte damage classes; sampled over sealed values, answers and keys"
	faults := map[string]int64{}
	for k, v := range c { // copied into a map that json sorts
		if strings.HasPrefix(k, "corrupt:") {
			faults[strings.TrimPrefix(k, "corrupt:")] = v
		}
	}
	faults["entropy-source-failed"] = c["entropy_fault_made_encrypt_fail"]
	ev.Coverage["faults_injected"] = faults
	ev.Coverage["probes"] = map[string]int64{"damaged_values_still_opening_to_original": c["damaged_values_still_opening_to_original"], "wrong_key_opened_to_original": c["wrong_key_opened_to_original"],
		"verifications": c["verifications"], "verifications_of_corrupted_sealed_files": c["verifications_of_corrupted_sealed_files"], "roundtrips": c["roundtrips"], "frontmatter_roundtrips": c["frontmatter_roundtrips"], "file_roundtrips": c["file_roundtrips"], "model_histories": c["model_histories"], "model_history_operations": c["model_history_operations"], "pairs_of_values_sealed_in_one_process_and_spliced": c["splice_pairs"], "verifications_of_text_and_picture_questions_sharing_programs": c["verifications_of_text_and_picture_questions_sharing_programs"], "verifications_with_a_marked_letter_beyond_the_choices": c["verifications_with_a_marked_letter_beyond_the_choices"], "verifications_of_questions_with_more_choices_than_letters": c["verifications_of_questions_with_more_choices_than_letters"]}
	ev.Coverage["components"] = map[string][]string{"real": {"learn.Encrypt/Decrypt (RSA-OAEP + AES-GCM envelope)", "questionFrontmatter Seal/Unseal/getAnswer", "QuestionModel: markdown parsing, Verify, verifyChoiceMatch, correctAnswerIndices", "runEvy (the real evaluator produces every output)"},
		"stub": {"crypto/rand.Reader (seeded stream, made to fail or run short)", "stored sealed value (damaged by the simulator)"}}
	ev.Assumptions = []string{
		"key fixtures are pre-generated (three 1024-bit, two 2048-bit pairs); the thorough tier would add fresh keys only if generation were deterministic, which crypto/rsa deliberately prevents",
		"damage that still opens to the original (version byte, base64 line breaks, non-canonical padding bits) is allowed by the statement and counted",
	}
}
