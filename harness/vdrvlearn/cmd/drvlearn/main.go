// drvlearn is the driver binary for the properties that live in the learn module.
package main

import (
	"os"

	"evylang.dev/evy/learn/vdrvlearn/c20"
	"evylang.dev/evy/vdrv/core"
)

func driver(prop string) core.Driver {
	if prop == "C20" {
		return &c20.D{KeyFile: os.Getenv("VERIF_KEYS")}
	}
	return nil
}

func main() { core.Main(driver, nil) }
