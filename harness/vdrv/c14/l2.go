package c14

import (
	"fmt"
	"strings"

	"evylang.dev/evy/vdrv/core"
	"evylang.dev/evy/vdrv/l2"
	"evylang.dev/evy/vdrv/work"
	"evylang.dev/evy/vsim/prng"
)

// L2 items: the real pkg/wasm glue under the simulated browser. The scripted
// user clicks Stop at a seeded virtual time; the run is compared with the
// same run without the click.

func l2Opts(sc *core.Scenario) l2.Opts {
	// half of the scenarios type their lines at scheduled times, so that Read really polls
	return l2.Opts{StopWhenIdle: true, AutoType: sc.Index%2 == 0, RelativeToReg: true, MaxVirtualNs: 60_000_000_000, MaxSteps: 1_500_000}
}

func l2Base(idx int, ctx *core.Ctx) *core.Scenario {
	r := core.ItemRNG(ctx.Seed, "C14-l2", idx)
	var sc *core.Scenario
	c := cfg(ctx.Tier)
	j := idx - (c.gen + c.corpus + c.probes + c.endless) // position among the L2 items
	shape := r.Intn(7)
	if j >= 0 && j < work.EndlessShapes {
		shape = 0 // every endless shape is run at L2 in every tier, whatever the seed
	}
	switch shape {
	case 0, 6:
		prog, evs := work.Endless(r)
		if j >= 0 && j < work.EndlessShapes {
			prog, evs = work.EndlessK(j)
		}
		sc = &core.Scenario{Property: "C14", Seed: ctx.Seed, Index: idx, Kind: "l2:endless", Program: prog, Events: evs, RandSeed: 1, ReplayExact: true}
	case 1:
		files := work.Corpus(ctx.Corpus)
		if len(files) == 0 {
			return nil
		}
		sc = work.FromCorpus(r, files[r.Intn(len(files))], "C14", ctx.Seed, idx)
		sc.Kind = "l2:" + sc.Kind
	case 3:
		// programs that wait for input nobody types: the Stop click lands while Read polls
		progs := []string{
			"print \"name?\"\ns := read\nprint \"hello\" s\n",
			"n := 0\nwhile true\n    l := read\n    n = n + (len l)\n    print n\nend\n",
			"on key k:string\n    print \"key\" k\n    l := read\n    print \"line\" l\nend\n",
			"func ask:string\n    print \"?\"\n    return read\nend\nprint (ask) (ask)\n",
			"print \"hello\" (read)\nprint \"after\"\n",
			"test \"x\" (read)\nprint \"after\"\n",
			"sleep (len (read))\nprint \"slept\"\n",
			"on key k:string\n    print k (upper (read))\nend\n",
			"m := {k:(read)}\nprint m\nexit (len (read))\n",
		}
		sc = &core.Scenario{Property: "C14", Seed: ctx.Seed, Index: idx, Kind: "l2:blocked-read", Program: progs[r.Intn(len(progs))], RandSeed: 1, ReplayExact: true}
		sc.Events = []core.Event{{Name: "key", Str: []string{"a"}, AtNs: 3_000_000}}
		if r.Chance(0.5) {
			sc.Inputs = []string{"one"}
		}
	case 2:
		ps := work.Probes(2000)
		p := ps[r.Intn(len(ps))]
		sc = &core.Scenario{Property: "C14", Seed: ctx.Seed, Index: idx, Kind: "l2:probe:" + p.Name, Program: p.Program, Events: p.Events, RandSeed: 1, ReplayExact: true}
		if strings.Contains(p.Name, "calls") || p.Name == "recursion" {
			sc = nil
		}
	}
	if sc == nil {
		o := work.SwarmOpts(r)
		o.Unused, o.NearMiss = false, false
		o.Handlers = r.Chance(0.7)
		o.Sleeps = r.Chance(0.6)
		o.Reads = r.Chance(0.4)
		sc = work.Generated(r, o, "C14", ctx.Seed, idx)
		sc.Kind = "l2:generated"
	}
	sc.Level = "L2"
	sc.Schedule.ClockCostNs = int64([]int{5_000, 20_000, 100_000, 500_000, 7_000, 33_000, 61_000, 250_000}[r.Intn(8)])
	sc.Schedule.Map.Default.Kind = "asc"
	return sc
}

func l2Compare(sc *core.Scenario, ref, f *l2.Result) *core.Violation {
	if !f.StopClicked || f.StopDuring == "timeout" || f.StopDuring == "step-budget" {
		return nil // the click came after the natural end: nothing to check
	}
	if f.HostPanic != "" {
		return nil // C02's business
	}
	obs := func() map[string]any {
		post := f.ImportsAfterStop
		if len(post) > 5 {
			post = post[:5]
		}
		return map[string]any{"stop_clicked_at_ms": float64(f.StopAt) / 1e6, "go_was_in": f.StopDuring, "effects_before_click": f.StopAtEffect,
			"imports_after_stop_returned": post, "steps_after_click": f.StepsAfterStop, "after_stop_called": f.AfterStop, "errors": f.Errors, "aborted": f.Aborted}
	}
	if f.Aborted != "" || !f.AfterStop {
		return &core.Violation{Oracle: "O6-stops-within-bound", Signature: "L2:O6:" + f.StopDuring,
			Expected: "after the Stop click the program ends (afterStop) within 10 s of virtual time and 2e6 evaluation steps",
			Observed: obs(), Match: map[string]string{"oracle": "L2-O6", "during": f.StopDuring}}
	}
	n := f.StopAtEffect
	if n > len(ref.Effects) {
		n = len(ref.Effects)
	}
	for i := 0; i < n; i++ {
		if f.Effects[i] != ref.Effects[i] {
			o := obs()
			o["first_difference"] = i
			return &core.Violation{Oracle: "O3-prefix", Signature: "L2:O3", Expected: "effects before the stop are a prefix of the uninterrupted run",
				Observed: o, Match: map[string]string{"oracle": "L2-O3"}}
		}
	}
	post := f.ImportsAfterStop
	allowed := 0
	if len(post) > 0 && isSummary(post[len(post)-1]) && strings.Contains(sc.Program, "test") {
		allowed = 1
	}
	if len(post) > allowed {
		return &core.Violation{Oracle: "O2-effect-after-stop", Signature: "L2:O2:" + f.StopDuring,
			Expected: "after exports.stop() returned no import other than afterStop (and the optional test summary) is called",
			Observed: obs(), Match: map[string]string{"oracle": "L2-O2", "during": f.StopDuring}}
	}
	if len(f.Errors) > len(refErrorsBefore(ref, f)) {
		return &core.Violation{Oracle: "O1-stopped-result", Signature: "L2:O1", Expected: "a stopped run reports no error",
			Observed: obs(), Match: map[string]string{"oracle": "L2-O1"}}
	}
	return nil
}

func refErrorsBefore(ref, f *l2.Result) []string {
	// an error the uninterrupted run also reports (before the click) is not caused by the stop
	if len(ref.Errors) > 0 && len(f.Effects) >= len(ref.Effects) {
		return ref.Errors
	}
	return nil
}

func (d *D) runL2Item(idx int, ctx *core.Ctx) {
	if !d.gate(ctx) {
		// the evaluator does not yield per iteration/call (reported by O4): the
		// browser-level runs would only crawl
		ctx.Inc("l2_skipped_gate_failed", 1)
		return
	}
	sc := l2Base(idx, ctx)
	if sc == nil {
		return
	}
	sc.Tier = ctx.Tier
	ref := l2.Run(sc, l2Opts(sc))
	ctx.Inc("evaluations", 1)
	ctx.Inc("l2_reference_runs", 1)
	if len(ref.Errors) > 0 && len(ref.Effects) == 0 {
		ctx.Inc("l2_programs_rejected_or_failed_at_once", 1)
		return
	}
	ctx.Inc("simulated_ns", ref.EndNs)
	ctx.Inc("steps", ref.Steps)
	if ref.HostPanic != "" {
		ctx.Inc("l2_host_panic(C02)", 1)
		return
	}
	r := core.ItemRNG(ctx.Seed, "C14-l2-stop", idx)
	end := ref.EndNs
	if ref.StopClicked {
		end = ref.StopAt
	}
	if end <= 0 {
		end = 1
	}
	nstops := 12
	if ctx.Tier == "thorough" {
		nstops = 40
	}
	var times []int64
	for i := 0; i < nstops; i++ {
		switch {
		case i%3 == 0 && len(ref.EffAt) > 0:
			// right around an effect
			t := ref.EffAt[r.Intn(len(ref.EffAt))] + int64(r.Intn(2_000_000)) - 1_000_000
			if t < 1 {
				t = 1
			}
			times = append(times, t)
		default:
			times = append(times, 1+int64(r.Uint64()%uint64(end)))
		}
	}
	progHash := prng.HashString(sc.Program + fmt.Sprint(sc.Events, sc.Inputs, sc.Schedule.ClockCostNs))
	for _, t := range times {
		fs := sc.Clone()
		fs.Faults = []core.Fault{{Kind: "stop-click", AtNs: t}}
		f := l2.Run(fs, l2Opts(fs))
		ctx.Inc("evaluations", 1)
		ctx.Inc("l2_stop_runs", 1)
		if !f.StopClicked {
			continue
		}
		ctx.Inc("stop-click@"+f.StopDuring, 1)
		if f.StopAtEffect < len(ref.Effects) {
			ctx.Distinct(prng.Mix(progHash, uint64(t)))
		}
		ctx.Sched(prng.Mix(progHash, uint64(f.StopAtStep), prng.HashString(f.StopDuring)))
		if v := l2Compare(fs, ref, f); v != nil {
			ctx.Violate(fs, v)
		}
	}
}

func (d *D) checkL2(sc *core.Scenario) *core.Violation {
	base := sc.Clone()
	base.Faults = nil
	ref := l2.Run(base, l2Opts(base))
	f := l2.Run(sc, l2Opts(sc))
	return l2Compare(sc, ref, f)
}
