// Package c14: running programs stay interruptible and stop cleanly.
//
// Crash point = fault point: every Yield, Sleep and Read poll (plus the idle
// moments before Eval and between events). For each program the run with the
// stop flag raised inside fault point k is compared with the uninterrupted
// reference run; for runs with few fault points every k is executed.
package c14

import (
	"fmt"
	"strings"

	"evylang.dev/evy/pkg/evaluator"
	"evylang.dev/evy/vdrv/core"
	"evylang.dev/evy/vdrv/plat"
	"evylang.dev/evy/vdrv/work"
	"evylang.dev/evy/vsim/prng"
)

// D is the driver.
type D struct {
	gateDone bool
	gateOK   bool
}

func (d *D) Property() string { return "C14" }
func (d *D) Level() string    { return "fault_enumeration" }

type tierCfg struct {
	gen, corpus, probes, endless, l2, tails int
	budget                                  int
	exhaustMax                              int
	sample                                  int
}

func cfg(tier string) tierCfg {
	if tier == "thorough" {
		return tierCfg{gen: 12000, corpus: 382 * 4, probes: 21 * 6, endless: 300, l2: 3000, tails: 128, budget: 200000, exhaustMax: 1500, sample: 400}
	}
	return tierCfg{gen: 260, corpus: 120, probes: 21 * 2, endless: 30, l2: 64, tails: 32, budget: 20000, exhaustMax: 400, sample: 200}
}

func (d *D) Count(tier string) int {
	c := cfg(tier)
	return c.gen + c.corpus + c.probes + c.endless + c.l2 + c.tails
}

var probeNs = []int{5, 40, 3, 17, 64, 200}

// Base builds the base scenario (no fault) of item idx.
func (d *D) Base(idx int, ctx *core.Ctx) (*core.Scenario, *work.Probe) {
	c := cfg(ctx.Tier)
	r := core.ItemRNG(ctx.Seed, "C14", idx)
	switch {
	case idx >= c.gen+c.corpus+c.probes+c.endless+c.l2:
		t := work.Tails[(idx-(c.gen+c.corpus+c.probes+c.endless+c.l2))%len(work.Tails)]
		sc := &core.Scenario{Property: "C14", Seed: ctx.Seed, Index: idx, Level: "L1", Kind: "tail", Program: t.Program, Inputs: t.Inputs,
			Events: t.Events, RandSeed: 1, NoTestSummary: idx%2 == 0, ReplayExact: true}
		sc.Schedule.Map.Default.Kind = "asc"
		return sc, nil
	case idx < c.probes:
		n := probeNs[(idx/21)%len(probeNs)]
		ps := work.Probes(n)
		p := ps[idx%len(ps)]
		sc := &core.Scenario{Property: "C14", Seed: ctx.Seed, Index: idx, Level: "L1", Kind: "probe:" + p.Name, Program: p.Program,
			Events: p.Events, RandSeed: 1, NoTestSummary: true, ReplayExact: true}
		sc.Schedule.Map.Default.Kind = "asc"
		return sc, &p
	case idx < c.probes+c.endless:
		prog, evs := work.Endless(r)
		sc := &core.Scenario{Property: "C14", Seed: ctx.Seed, Index: idx, Level: "L1", Kind: "endless", Program: prog,
			Events: evs, RandSeed: 1, NoTestSummary: r.Chance(0.5), ReplayExact: true}
		sc.Schedule.Map.Default.Kind = "asc"
		return sc, nil
	case idx < c.probes+c.endless+c.corpus:
		files := work.Corpus(ctx.Corpus)
		if len(files) == 0 {
			return nil, nil
		}
		k := idx - c.probes - c.endless
		var cf work.CorpusFile
		if ctx.Tier == "thorough" {
			cf = files[k%len(files)]
		} else {
			cf = files[r.Intn(len(files))]
		}
		sc := work.FromCorpus(r, cf, "C14", ctx.Seed, idx)
		return sc, nil
	default:
		o := work.SwarmOpts(r)
		o.Unused, o.NearMiss = false, false
		if r.Chance(0.1) {
			o.Endless = true
		}
		sc := work.Generated(r, o, "C14", ctx.Seed, idx)
		return sc, nil
	}
}

// Regen implements core.Driver.
func (d *D) Regen(idx int, ctx *core.Ctx) *core.Scenario {
	c := cfg(ctx.Tier)
	if idx >= c.gen+c.corpus+c.probes+c.endless && idx < c.gen+c.corpus+c.probes+c.endless+c.l2 {
		return l2Base(idx, ctx)
	}
	sc, _ := d.Base(idx, ctx)
	return sc
}

func budgetFor(sc *core.Scenario) int {
	if sc.Tier == "thorough" {
		return 200000
	}
	return 20000
}

// gate runs the O4 probes once per worker: a build whose loops do not yield
// is reported by O4 deterministically instead of hanging in an endless program.
func (d *D) gate(ctx *core.Ctx) bool {
	if d.gateDone {
		return d.gateOK
	}
	d.gateDone = true
	d.gateOK = true
	for _, p := range work.Probes(7) {
		sc := &core.Scenario{Property: "C14", Level: "L1", Kind: "probe:" + p.Name, Program: p.Program, Events: p.Events, RandSeed: 1, NoTestSummary: true}
		sc.Schedule.Map.Default.Kind = "asc"
		if v := checkProbe(sc, &p, 20000); v != nil {
			d.gateOK = false
		}
	}
	return d.gateOK
}

func between(res *core.Result, a, b string) (int, bool) {
	ia, ib := -1, -1
	for i, e := range res.P.Effects {
		if ia < 0 && strings.HasPrefix(e, "print \""+a) {
			ia = i
		} else if ia >= 0 && strings.HasPrefix(e, "print \""+b) {
			ib = i
			break
		}
	}
	if ia < 0 || ib < 0 {
		return 0, false
	}
	return res.P.EffYield[ib] - res.P.EffYield[ia], true
}

func checkProbe(sc *core.Scenario, p *work.Probe, budget int) *core.Violation {
	ref := core.RunL1(sc, core.L1Opts{Budget: budget})
	if !ref.Accepted || ref.P == nil {
		return nil // the parser's verdict is not ours to judge
	}
	y, ok := between(ref, "A", "B")
	if !ok {
		return nil
	}
	if y < p.MinYield {
		return &core.Violation{Oracle: "O4-interruptible", Signature: "O4:" + p.Name,
			Expected: fmt.Sprintf("at least %d yields between the markers (one per loop iteration / call)", p.MinYield),
			Observed: map[string]any{"yields_between_markers": y, "probe": p.Name},
			Match:    map[string]string{"oracle": "O4", "probe": p.Name}}
	}
	return nil
}

func summaryAllowed(sc *core.Scenario, f *core.Result) bool {
	// only the summary of the tests run so far may follow, and only from Eval
	return !sc.NoTestSummary && !f.P.RaisedInHandler && strings.HasPrefix(f.Stage, "eval")
}

func isSummary(e string) bool {
	return strings.HasPrefix(e, "print ") && strings.Contains(e, "test")
}

// compare applies O1–O3 to a faulted run against the reference.
func compare(sc *core.Scenario, ref, f *core.Result, k int) *core.Violation {
	p := f.P
	if p == nil {
		return nil
	}
	if !p.Raised || p.RaisedByBudget || p.RaisedByBlocked && p.RaisedAtFP != k {
		return nil // fault point k does not exist in this run: nothing to check
	}
	kind := plat.FPKindNames[p.RaisedKind]
	obs := func() map[string]any {
		post := []string{}
		if p.RaisedAtEffect <= len(p.Effects) {
			post = append(post, p.Effects[p.RaisedAtEffect:]...)
		}
		if len(post) > 5 {
			post = post[:5]
		}
		return map[string]any{"fault_point": k, "fault_point_kind": kind, "result": f.EndClass, "result_msg": f.EndMsg,
			"effects_before_raise": p.RaisedAtEffect, "post_raise_effects": post, "yields_after_raise": p.YieldsAfterRaise,
			"raised_in_handler": p.RaisedInHandler, "stage": f.Stage}
	}
	if f.EndClass == core.EndHostPanic || f.EndClass == core.EndInternal {
		return nil // C02's business
	}
	// O3 prefix
	n := p.RaisedAtEffect
	if n > len(ref.P.Effects) {
		return &core.Violation{Oracle: "O3-prefix", Signature: "O3:longer", Expected: "effects before the stop are a prefix of the uninterrupted run",
			Observed: obs(), Match: map[string]string{"oracle": "O3"}}
	}
	for i := 0; i < n; i++ {
		if p.Effects[i] != ref.P.Effects[i] {
			o := obs()
			o["first_difference"] = i
			o["interrupted"] = p.Effects[i]
			o["uninterrupted"] = ref.P.Effects[i]
			return &core.Violation{Oracle: "O3-prefix", Signature: "O3:differs", Expected: "effects before the stop are a prefix of the uninterrupted run",
				Observed: o, Match: map[string]string{"oracle": "O3"}}
		}
	}
	// O2 nothing further
	post := p.Effects[n:]
	allowed := 0
	if summaryAllowed(sc, f) && len(post) > 0 && isSummary(post[len(post)-1]) {
		allowed = 1
	}
	if len(post) > allowed {
		return &core.Violation{Oracle: "O2-effect-after-stop", Signature: "O2:effect:" + kind,
			Expected: "no effect after the stop flag is raised (only the test summary may follow)",
			Observed: obs(), Match: map[string]string{"oracle": "O2-effect", "at": kind, "effect": strings.SplitN(post[0], " ", 2)[0]}}
	}
	if p.YieldsAfterRaise > 0 {
		return &core.Violation{Oracle: "O2-eval-after-stop", Signature: "O2:yield:" + kind,
			Expected: "nothing is evaluated after the stop flag is raised (no further Yield)",
			Observed: obs(), Match: map[string]string{"oracle": "O2-yield", "at": kind}}
	}
	if f.StopMon != "" {
		// the monitor around Evaluator.eval saw a node that was entered with the flag up and still evaluated to its end
		o := obs()
		parts := strings.SplitN(f.StopMon, "|", 2)
		o["node_evaluated_after_stop"] = f.StopMon
		return &core.Violation{Oracle: "O2-eval-after-stop", Signature: "O2:node:" + strings.TrimPrefix(parts[0], "*parser.") + ":" + kind,
			Expected: "nothing is evaluated after the stop flag is raised: a node entered while the flag is up ends with 'stopped'",
			Observed: o, Match: map[string]string{"oracle": "O2-node", "at": kind}}
	}
	if f.TestsCompleted >= 0 && f.TestsCounted != f.TestsCompleted {
		// "only the summary of the tests run so far may follow": the count it reports is the number
		// of test calls that ran to their end before the stop (seen by the monitor around eval)
		o := obs()
		o["tests_that_ran_to_their_end"] = f.TestsCompleted
		o["tests_counted_by_the_summary"] = f.TestsCounted
		return &core.Violation{Oracle: "O2-summary-of-tests-run-so-far", Signature: "O2:summary-count:" + kind,
			Expected: "after a stop only the summary of the tests run so far may follow: it counts the test calls that ran to their end, no unfinished one",
			Observed: o, Match: map[string]string{"oracle": "O2-summary", "at": kind}}
	}
	// O1 stopped result
	if f.EndClass != core.EndStopped {
		return &core.Violation{Oracle: "O1-stopped-result", Signature: "O1:" + kind + ":" + f.EndClass,
			Expected: "the run ends with the 'stopped' result", Observed: obs(),
			Match: map[string]string{"oracle": "O1", "at": kind, "result": f.EndClass}}
	}
	// a later HandleEvent on the stopped evaluator: stopped, no effects
	if p.Ev != nil && len(p.Ev.EventHandlerNames) > 0 {
		before := len(p.Effects)
		name := firstHandler(sc.Program)
		if name != "" {
			res := &core.Result{}
			err := safeHandle(p.Ev, name, res)
			if res.HostPanic == "" {
				cls, _ := core.Classify(err)
				if len(p.Effects) != before || cls != core.EndStopped {
					o := obs()
					o["late_handle_event_result"] = cls
					o["late_effects"] = len(p.Effects) - before
					return &core.Violation{Oracle: "O2-late-event", Signature: "O2:late-event", Expected: "an event delivered after the stop has no effect and returns stopped",
						Observed: o, Match: map[string]string{"oracle": "O2-late"}}
				}
			}
		}
	}
	return nil
}

func firstHandler(src string) string {
	hs := work.HandlerNames(src)
	if len(hs) == 0 {
		return ""
	}
	return hs[0]
}

func safeHandle(ev *evaluator.Evaluator, name string, res *core.Result) (err error) {
	defer func() {
		if p := recover(); p != nil {
			res.HostPanic = fmt.Sprint(p)
		}
	}()
	var params []any
	switch name {
	case "key":
		params = []any{"z"}
	case "input":
		params = []any{"i", "v"}
	case "animate":
		params = []any{1.0}
	default:
		params = []any{1.0, 2.0}
	}
	return ev.HandleEvent(evaluator.Event{Name: name, Params: params})
}

// faultPoints chooses which fault points to raise at.
func faultPoints(r *prng.R, ref *core.Result, c tierCfg) ([]int, bool) {
	n := ref.P.FPs
	if n <= c.exhaustMax {
		ks := make([]int, n)
		for i := range ks {
			ks[i] = i + 1
		}
		return ks, true
	}
	pick := map[int]bool{}
	for i := 1; i <= 20 && i <= n; i++ {
		pick[i] = true
		pick[n+1-i] = true
	}
	// adjacent to effects
	for _, fp := range ref.P.EffFP {
		for _, k := range []int{fp, fp + 1} {
			if k >= 1 && k <= n && len(pick) < c.exhaustMax {
				pick[k] = true
			}
		}
	}
	for i := 0; i < c.sample; i++ {
		pick[1+r.Intn(n)] = true
	}
	ks := make([]int, 0, len(pick))
	for k := 1; k <= n; k++ { // ordered scan instead of ranging over the set
		if pick[k] {
			ks = append(ks, k)
		}
	}
	return ks, false
}

// RunItem checks one program at all chosen fault points.
func (d *D) RunItem(idx int, ctx *core.Ctx) {
	c := cfg(ctx.Tier)
	if idx >= c.gen+c.corpus+c.probes+c.endless && idx < c.gen+c.corpus+c.probes+c.endless+c.l2 {
		d.runL2Item(idx, ctx)
		return
	}
	sc, probe := d.Base(idx, ctx)
	if sc == nil {
		return
	}
	sc.Tier = ctx.Tier
	if sc.Kind == "endless" || strings.Contains(sc.Program, "while true") {
		if !d.gate(ctx) {
			ctx.Inc("endless_skipped_gate_failed", 1)
			if sc.Kind == "endless" {
				return
			}
		}
	}
	if probe != nil {
		ctx.Inc("evaluations", 1)
		ctx.Inc("probe_runs", 1)
		if v := checkProbe(sc, probe, c.budget); v != nil {
			ctx.Violate(sc, v)
		}
	}
	ref := core.RunL1(sc, core.L1Opts{Budget: c.budget})
	ctx.Inc("evaluations", 1)
	if !ref.Accepted {
		ctx.Inc("programs_rejected_by_parser", 1)
		return
	}
	ctx.Inc("programs", 1)
	if ref.P.RaisedByBudget {
		ctx.Inc("programs_endless_or_over_budget", 1)
	}
	ctx.Inc("simulated_ns", ref.P.NowNs)
	ctx.Inc("steps", int64(ref.P.Yields))
	r := core.ItemRNG(ctx.Seed, "C14-fp", idx)
	ks, exhaustive := faultPoints(r, ref, c)
	if exhaustive {
		ctx.Inc("programs_exhaustive", 1)
	}
	ctx.Inc("fault_points_total", int64(ref.P.FPs))
	progHash := prng.HashString(sc.Program + "\x00" + strings.Join(sc.Inputs, "\x01") + fmt.Sprint(len(sc.Events), sc.NoTestSummary))
	for _, k := range ks {
		fs := sc.Clone()
		fs.Faults = []core.Fault{{Kind: "stop", At: k}}
		f := core.RunL1(fs, core.L1Opts{Budget: c.budget})
		ctx.Inc("evaluations", 1)
		ctx.Inc("fault_points_hit", 1)
		if f.P == nil || !f.P.Raised || f.P.RaisedAtFP != k {
			ctx.Inc("fault_point_absent", 1)
			continue
		}
		kind := plat.FPKindNames[f.P.RaisedKind]
		ctx.Inc("stop@"+kind, 1)
		if f.P.RaisedInHandler {
			ctx.Inc("stop-in-handler", 1)
		}
		if k == ref.P.FPs {
			ctx.Inc("probe_raise_at_last_fault_point", 1)
		}
		if f.P.RaisedAtEffect < len(ref.P.Effects) && ref.P.EffFP[f.P.RaisedAtEffect] == k-1 || f.P.RaisedAtEffect > 0 && ref.P.EffFP[f.P.RaisedAtEffect-1] == k-1 {
			ctx.Inc("probe_raise_adjacent_to_effect", 1)
		}
		if len(ref.P.Effects) > 0 && f.P.RaisedAtEffect <= len(ref.P.Effects) {
			ctx.Distinct(prng.Mix(progHash, uint64(k)))
		}
		ctx.Sched(prng.Mix(progHash, uint64(k), uint64(f.P.RaisedKind)))
		if v := compare(fs, ref, f, k); v != nil {
			ctx.Violate(fs, v)
		}
		if len(ctx.St.Samples) < 3 && f.P.RaisedAtEffect > 0 && len(sc.Program) < 600 {
			ctx.Sample(map[string]any{"program": sc.Program, "inputs": sc.Inputs, "events": len(sc.Events), "stop_at_fault_point": k,
				"fault_point_kind": kind, "result": f.EndClass, "effects_before_stop": f.P.RaisedAtEffect, "reference_effects": len(ref.P.Effects)}, 3)
		}
	}
	if sc.Kind == "endless" && ref.P.RaisedByBudget {
		ctx.Inc("probe_endless_program_stopped", 1)
	}
}

// Check re-executes one explicit scenario (replay, minimisation).
func (d *D) Check(sc *core.Scenario) *core.Violation {
	if sc.Level == "L2" {
		return d.checkL2(sc)
	}
	budget := budgetFor(sc)
	if strings.HasPrefix(sc.Kind, "probe:") && len(sc.Faults) == 0 {
		name := strings.TrimPrefix(sc.Kind, "probe:")
		for _, n := range probeNs {
			for _, p := range work.Probes(n) {
				if p.Name == name && p.Program == sc.Program {
					return checkProbe(sc, &p, budget)
				}
			}
		}
		// minimised probe text no longer matches a generated one: use observed minimum
		if m, ok := sc.Observed["min_yield"].(float64); ok {
			p := work.Probe{Name: name, MinYield: int(m)}
			return checkProbe(sc, &p, budget)
		}
		return nil
	}
	base := sc.Clone()
	base.Faults = nil
	ref := core.RunL1(base, core.L1Opts{Budget: budget})
	if !ref.Accepted || ref.P == nil {
		return nil
	}
	k := 0
	for _, f := range sc.Faults {
		if f.Kind == "stop" {
			k = f.At
		}
	}
	if k == 0 {
		return nil
	}
	f := core.RunL1(sc, core.L1Opts{Budget: budget})
	if f.P == nil || !f.P.Raised || f.P.RaisedAtFP != k {
		return nil
	}
	return compare(sc, ref, f, k)
}

// Retarget re-aims the stop at the last fault point and at the fault points
// adjacent to each effect of the shrunk program.
func (d *D) Retarget(c *core.Scenario) []*core.Scenario {
	if c.Level == "L2" {
		return nil
	}
	base := c.Clone()
	base.Faults = nil
	ref := core.RunL1(base, core.L1Opts{Budget: budgetFor(c)})
	if !ref.Accepted || ref.P == nil || ref.P.FPs == 0 {
		return nil
	}
	var out []*core.Scenario
	seen := map[int]bool{}
	add := func(k int) {
		if k >= 1 && k <= ref.P.FPs && !seen[k] && len(out) < 12 {
			seen[k] = true
			a := c.Clone()
			a.Faults = []core.Fault{{Kind: "stop", At: k}}
			out = append(out, a)
		}
	}
	add(ref.P.FPs)
	for _, fp := range ref.P.EffFP {
		add(fp)
		add(fp + 1)
	}
	return out
}

// Shrink: move the fault to earlier fault points.
func (d *D) Shrink(sc *core.Scenario) []*core.Scenario {
	var out []*core.Scenario
	for i, f := range sc.Faults {
		if f.Kind != "stop" || f.At <= 1 {
			continue
		}
		for _, k := range []int{1, f.At / 2, f.At - 1} {
			if k >= 1 && k < f.At {
				c := sc.Clone()
				c.Faults[i].At = k
				out = append(out, c)
			}
		}
	}
	return out
}

// Describe adds the property-specific evidence.
func (d *D) Describe(ev *core.Evidence, st *core.Stats) {
	c := st.Counters
	ev.Coverage["rule"] = "one evaluation = one simulated run (reference run, or run with the stop flag raised inside one fault point: a Yield, a Sleep, a Read poll, or an idle moment before Eval / between events); non-trivial = the raise happened before the natural end of a program whose reference trace is non-empty; distinct by hash(program, inputs, #events, fault point)"
	ev.Coverage["programs"] = c["programs"]
	ev.Coverage["exhaustive_programs"] = c["programs_exhaustive"]
	ev.Coverage["exhaustive"] = false
	ev.Coverage["fault_points_total"] = c["fault_points_total"]
	ev.Coverage["fault_points_hit"] = c["fault_points_hit"]
	ev.Coverage["faults_injected"] = map[string]int64{"stop@yield": c["stop@yield"], "stop@sleep": c["stop@sleep"], "stop@read": c["stop@read"], "stop@idle": c["stop@idle"], "stop-in-handler": c["stop-in-handler"],
		"L2 stop-click during forced yield": c["stop-click@forced-yield"], "L2 stop-click during sleep": c["stop-click@sleep"], "L2 stop-click during read poll": c["stop-click@read-poll"], "L2 stop-click while idle": c["stop-click@idle"]}
	ev.Coverage["l2"] = map[string]int64{"reference_runs": c["l2_reference_runs"], "stop_runs": c["l2_stop_runs"]}
	ev.Coverage["probes"] = map[string]int64{"raise_at_last_fault_point": c["probe_raise_at_last_fault_point"], "raise_adjacent_to_effect": c["probe_raise_adjacent_to_effect"],
		"endless_program_stopped": c["probe_endless_program_stopped"], "interruptibility_probe_runs": c["probe_runs"]}
	ev.Coverage["simulated_time_s"] = float64(c["simulated_ns"]) / 1e9
	ev.Coverage["steps"] = c["steps"]
	ev.Coverage["components"] = map[string][]string{"real": {"lexer", "parser", "evaluator", "builtins"}, "real at L2 only": {"pkg/wasm: main, evaluate, handleEvents, stop, on* exports, alloc/getString, jsPlatform, sleepingYielder incl. polled Read"},
		"stub": {"L1: platform (SimPlatform: records effects, scripted input, virtual clock) and event loop (driver mirrors pkg/wasm handleEvents)", "L2: the browser / JS side (simjs model of frontend/play/index.js), decodePtrLen (handle table), clock"}}
	ev.Assumptions = []string{
		"a platform raises Stopped only while it has control: inside Yield, Sleep, a blocked Read, or while the evaluator is idle",
		"the trailing test summary is recognised as a single Print containing the word 'test'; its text is not inspected",
		"programs with more fault points than the exhaustive limit are sampled (first/last 20, adjacent to effects, seeded sample)",
	}
	for _, k := range []string{"stop@yield", "stop@sleep", "stop@read", "stop@idle", "stop-in-handler", "probe_raise_at_last_fault_point", "probe_endless_program_stopped"} {
		if c[k] == 0 {
			ev.Assumptions = append(ev.Assumptions, "WARNING: probe "+k+" stayed at zero in this run")
		}
	}
}
