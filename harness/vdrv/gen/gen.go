// Package gen is the type-directed Evy program generator. A generated
// program is used only through the real parser's verdict; the generator's
// opinion is never an oracle.
package gen

import (
	"fmt"
	"strconv"
	"strings"

	"evylang.dev/evy/vsim/prng"
)

// Ty is a generator-side Evy type.
type Ty struct {
	K   string // num string bool any array map
	Sub *Ty
}

var (
	Num  = &Ty{K: "num"}
	Str  = &Ty{K: "string"}
	Bool = &Ty{K: "bool"}
	Any  = &Ty{K: "any"}
)

func Arr(t *Ty) *Ty { return &Ty{K: "array", Sub: t} }
func Map(t *Ty) *Ty { return &Ty{K: "map", Sub: t} }

func (t *Ty) String() string {
	switch t.K {
	case "array":
		return "[]" + t.Sub.String()
	case "map":
		return "{}" + t.Sub.String()
	}
	return t.K
}

func (t *Ty) Eq(o *Ty) bool {
	if t.K != o.K {
		return false
	}
	if t.Sub == nil || o.Sub == nil {
		return t.Sub == o.Sub
	}
	return t.Sub.Eq(o.Sub)
}

// Opts selects what a generated program may contain (swarm style).
type Opts struct {
	Stmts      int  // approximate number of top-level statements
	MaxDepth   int  // block nesting
	Funcs      int  // number of user functions
	Handlers   bool // emit event handlers
	HandlerSet []string
	Reads      bool
	Sleeps     bool
	Graphics   bool
	Rand       bool
	Tests      bool // `test` calls at top level
	Panics     bool // statements that may raise evy panics (index errors, exit, panic)
	Endless    bool // end the top-level code with an endless loop
	MapLits    bool // bias towards multi-entry map literals with effectful values
	Unused     bool // leave several variables unused (invalid program, for C08)
	NearMiss   bool // sprinkle type errors / unknown names (invalid program, for C08)
	Specials   bool // NaN, Inf, huge numbers
	FontBad    bool // font calls with several bad properties
	Comments   bool
	NoPrintAll bool
	NoShadow   bool
}

type variable struct {
	name string
	ty   *Ty
	used bool
	ro   bool // loop variable / param: do not assign
}

type fn struct {
	name     string
	params   []*Ty
	variadic *Ty
	ret      *Ty // nil = none
	pure     bool
	idx      int
}

// G is one generator run.
type G struct {
	r         *prng.R
	o         Opts
	scopes    [][]*variable
	globals   []*variable
	funcs     []*fn
	nameN     int
	out       []string
	indent    int
	inFunc    *fn
	inLoop    int
	inHandler bool
	budget    int
	noGrow    int
}

// Program is the generated text plus what the generator knows about it.
type Program struct {
	Text     string
	Handlers []string        // event names with a handler
	Params   map[string]bool // handler name -> declared with params
	Reads    int
}

var handlerSigs = map[string][]*Ty{
	"key": {Str}, "down": {Num, Num}, "up": {Num, Num}, "move": {Num, Num}, "animate": {Num}, "input": {Str, Str},
}

// AllEvents lists the six event names in a fixed order.
var AllEvents = []string{"key", "down", "up", "move", "animate", "input"}

// New returns a generator.
func New(r *prng.R, o Opts) *G {
	if o.Stmts == 0 {
		o.Stmts = 8
	}
	if o.MaxDepth == 0 {
		o.MaxDepth = 3
	}
	return &G{r: r, o: o}
}

func (g *G) emit(format string, a ...any) {
	g.out = append(g.out, strings.Repeat("    ", g.indent)+fmt.Sprintf(format, a...))
}

func (g *G) fresh(prefix string) string {
	g.nameN++
	return fmt.Sprintf("%s%d", prefix, g.nameN)
}

func (g *G) push() { g.scopes = append(g.scopes, nil) }
func (g *G) pop() []*variable {
	s := g.scopes[len(g.scopes)-1]
	g.scopes = g.scopes[:len(g.scopes)-1]
	return s
}

func (g *G) declare(v *variable) {
	g.scopes[len(g.scopes)-1] = append(g.scopes[len(g.scopes)-1], v)
	if len(g.scopes) == 1 && g.inFunc == nil && !g.inHandler {
		g.globals = append(g.globals, v)
	}
}

func (g *G) visible() []*variable {
	var vs []*variable
	for _, s := range g.scopes {
		vs = append(vs, s...)
	}
	return vs
}

func (g *G) varsOf(t *Ty, writable bool) []*variable {
	var vs []*variable
	for _, v := range g.visible() {
		if v.ty.Eq(t) && (!writable || !v.ro) {
			vs = append(vs, v)
		}
	}
	return vs
}

var numPool = []string{"0", "1", "2", "3", "7", "10", "0.5", "99.99", "1000000", "(-1)", "(-2.5)"}
var numSpecial = []string{"(0/0)", "(1/0)", "(-1/0)", "1000000000000000000000", "0.0000001", "123456789012345680000", "(-0)"}
var strPool = []string{`""`, `"a"`, `"abc"`, `"hello world"`, `"é"`, `"日本"`, `"𝄞x"`, `"q\"uote"`, `"back\\slash"`, `"tab\tnl\n"`, `"true"`, `"12"`, `"%v %s"`,
	// bytes that are not valid UTF-8 (the lexer's \x escape), alone and next to multi-byte characters
	`"h\xc3\xa9llo\xff"`, `"\xff"`, `"a\x80b"`, `"\xc3"`, `"é\xffabc"`, `"日\xe6\x97"`}
var keyPool = []string{"a", "b", "c", "name", "x", "y", "k1", "k2"}

func (g *G) randType(depth int) *Ty {
	w := []int{5, 4, 3, 1, 2, 2}
	if depth <= 0 {
		w = []int{5, 4, 3, 1, 0, 0}
	}
	switch g.r.Pick(w) {
	case 0:
		return Num
	case 1:
		return Str
	case 2:
		return Bool
	case 3:
		return Any
	case 4:
		return Arr(g.randType(depth - 1))
	}
	return Map(g.randType(depth - 1))
}

func (g *G) numLit() string {
	if g.o.Specials && g.r.Chance(0.2) {
		return numSpecial[g.r.Intn(len(numSpecial))]
	}
	return numPool[g.r.Intn(len(numPool))]
}

// lit produces a literal of type t (never an empty composite unless typed context allows it).
func (g *G) lit(t *Ty, depth int) string {
	switch t.K {
	case "num":
		return g.numLit()
	case "string":
		return strPool[g.r.Intn(len(strPool))]
	case "bool":
		if g.r.Chance(0.5) {
			return "true"
		}
		return "false"
	case "any":
		return g.lit([]*Ty{Num, Str, Bool}[g.r.Intn(3)], depth)
	case "array":
		n := g.r.Range(1, 3)
		parts := make([]string, n)
		for i := range parts {
			parts[i] = g.expr(t.Sub, depth-1)
		}
		return "[" + strings.Join(parts, " ") + "]"
	case "map":
		n := g.r.Range(1, 3)
		perm := g.r.Perm(len(keyPool))
		parts := make([]string, n)
		for i := range parts {
			parts[i] = keyPool[perm[i]] + ":" + g.expr(t.Sub, depth-1)
		}
		return "{" + strings.Join(parts, " ") + "}"
	}
	return "0"
}

func (g *G) useVar(t *Ty) (string, bool) {
	if g.noGrow > 0 && (t.K == "string" || t.K == "array" || t.K == "map" || t.K == "any") {
		// inside loops, functions and handlers the right-hand side of an
		// assignment must not mention growable values: repeated execution
		// would compound their size exponentially (host out of memory)
		return "", false
	}
	vs := g.varsOf(t, false)
	if len(vs) == 0 {
		return "", false
	}
	v := vs[g.r.Intn(len(vs))]
	v.used = true
	return v.name, true
}

// expr produces an expression of type t.
func (g *G) expr(t *Ty, depth int) string {
	if depth <= 0 || g.r.Chance(0.3) {
		if g.r.Chance(0.6) {
			if s, ok := g.useVar(t); ok {
				return s
			}
		}
		if t.K == "any" {
			// a typed value used where any is wanted gets wrapped by the parser
			return g.lit(t, 0)
		}
		return g.lit(t, 1)
	}
	switch t.K {
	case "num":
		switch g.r.Intn(9) {
		case 0, 1:
			op := []string{"+", "-", "*", "/", "%"}[g.r.Intn(5)]
			return "(" + g.expr(Num, depth-1) + " " + op + " " + g.expr(Num, depth-1) + ")"
		case 2:
			return "(len " + g.expr([]*Ty{Str, Arr(Num), Map(Str)}[g.r.Intn(3)], depth-1) + ")"
		case 3:
			f := []string{"abs", "floor", "ceil", "round", "sqrt", "sin", "cos", "log"}[g.r.Intn(8)]
			return "(" + f + " " + g.expr(Num, depth-1) + ")"
		case 4:
			f := []string{"min", "max", "pow", "atan2"}[g.r.Intn(4)]
			return "(" + f + " " + g.expr(Num, depth-1) + " " + g.expr(Num, depth-1) + ")"
		case 5:
			if s, ok := g.useVar(Arr(Num)); ok {
				return s + "[" + g.idx() + "]"
			}
			return "(str2num " + g.expr(Str, depth-1) + ")"
		case 6:
			if c, ok := g.call(Num, depth); ok {
				return c
			}
			return "(index " + g.expr(Str, depth-1) + " " + g.expr(Str, depth-1) + ")"
		case 7:
			if g.o.Rand {
				if g.r.Chance(0.5) {
					return "(rand1)"
				}
				return "(rand " + []string{"1", "2", "10", "2147483647"}[g.r.Intn(4)] + ")"
			}
			return "(-" + g.expr(Num, depth-1) + ")"
		default:
			if s, ok := g.useVar(Any); ok && g.o.Panics && g.r.Chance(0.3) {
				return s + ".(num)"
			}
			return g.lit(Num, 0)
		}
	case "string":
		switch g.r.Intn(9) {
		case 0, 1:
			return "(" + g.expr(Str, depth-1) + " + " + g.expr(Str, depth-1) + ")"
		case 2:
			return "(sprint " + g.expr(g.randType(1), depth-1) + " " + g.expr(g.randType(1), depth-1) + ")"
		case 3:
			f := []string{"upper", "lower"}[g.r.Intn(2)]
			return "(" + f + " " + g.expr(Str, depth-1) + ")"
		case 4:
			return "(typeof " + g.expr(g.randType(2), depth-1) + ")"
		case 5:
			if g.o.Reads && g.r.Chance(0.5) {
				return "(read)"
			}
			return "(join " + g.expr(Arr(g.randType(0)), depth-1) + " " + g.expr(Str, 0) + ")"
		case 6:
			if c, ok := g.call(Str, depth); ok {
				return c
			}
			return "(sprintf \"%v|%v\" " + g.expr(g.randType(1), depth-1) + " " + g.expr(Num, depth-1) + ")"
		case 7:
			if s, ok := g.useVar(Str); ok && g.o.Panics {
				return s + "[" + g.idx() + "]"
			}
			return "(trim " + g.expr(Str, depth-1) + " " + g.lit(Str, 0) + ")"
		default:
			return "(replace " + g.expr(Str, depth-1) + " " + g.lit(Str, 0) + " " + g.lit(Str, 0) + ")"
		}
	case "bool":
		switch g.r.Intn(8) {
		case 0, 1:
			op := []string{"<", ">", "<=", ">=", "==", "!="}[g.r.Intn(6)]
			return "(" + g.expr(Num, depth-1) + " " + op + " " + g.expr(Num, depth-1) + ")"
		case 2:
			op := []string{"and", "or"}[g.r.Intn(2)]
			return "(" + g.expr(Bool, depth-1) + " " + op + " " + g.expr(Bool, depth-1) + ")"
		case 3:
			return "(!" + g.expr(Bool, depth-1) + ")"
		case 4:
			tt := g.randType(1)
			if tt.K == "any" {
				tt = Num
			}
			op := []string{"==", "!="}[g.r.Intn(2)]
			return "(" + g.expr(tt, depth-1) + " " + op + " " + g.expr(tt, depth-1) + ")"
		case 5:
			if s, ok := g.useVar(Map(g.randType(0))); ok {
				return "(has " + s + " " + strconv.Quote(keyPool[g.r.Intn(len(keyPool))]) + ")"
			}
			return "(startswith " + g.expr(Str, depth-1) + " " + g.lit(Str, 0) + ")"
		case 6:
			if c, ok := g.call(Bool, depth); ok {
				return c
			}
			return "(str2bool " + g.expr(Str, depth-1) + ")"
		default:
			return "(" + g.expr(Str, depth-1) + " < " + g.expr(Str, depth-1) + ")"
		}
	case "any":
		tt := g.randType(1)
		if tt.K == "any" {
			tt = Str
		}
		return g.expr(tt, depth-1)
	case "array":
		switch g.r.Intn(6) {
		case 0:
			return "(" + g.expr(t, depth-1) + " + " + g.expr(t, depth-1) + ")"
		case 1:
			if s, ok := g.useVar(t); ok {
				return s + "[" + []string{":1", "1:", ":", "0:1", ":-1"}[g.r.Intn(5)] + "]"
			}
		case 2:
			if t.Sub.K == "string" {
				return "(split " + g.expr(Str, depth-1) + " " + g.lit(Str, 0) + ")"
			}
		case 3:
			return "(" + g.lit(t, depth) + " * " + []string{"0", "1", "2", "3"}[g.r.Intn(4)] + ")"
		case 4:
			if c, ok := g.call(t, depth); ok {
				return c
			}
		}
		return g.lit(t, depth)
	case "map":
		if c, ok := g.call(t, depth); ok && g.r.Chance(0.3) {
			return c
		}
		return g.lit(t, depth)
	}
	return g.lit(t, depth)
}

func (g *G) idx() string {
	if g.o.Panics && g.r.Chance(0.25) {
		return []string{"5", "-7", "1.5", "100"}[g.r.Intn(4)]
	}
	return []string{"0", "-1", "0"}[g.r.Intn(3)]
}

// call produces a call to a user function returning t.
func (g *G) call(t *Ty, depth int) (string, bool) {
	if g.noGrow > 0 && (t.K == "string" || t.K == "array" || t.K == "map" || t.K == "any") {
		return "", false // a procedure may return something built from a growable global
	}
	var cands []*fn
	for _, f := range g.funcs {
		if f.ret != nil && f.ret.Eq(t) && g.callable(f) {
			cands = append(cands, f)
		}
	}
	if len(cands) == 0 {
		return "", false
	}
	f := cands[g.r.Intn(len(cands))]
	return "(" + g.callText(f, depth) + ")", true
}

// callable: inside function i only functions j > i may be called, so the
// call graph is acyclic and recursion depth is bounded.
func (g *G) callable(f *fn) bool {
	if g.inFunc == nil {
		return true
	}
	return f.idx > g.inFunc.idx
}

func (g *G) callText(f *fn, depth int) string {
	parts := []string{f.name}
	for _, p := range f.params {
		parts = append(parts, g.expr(p, depth-1))
	}
	if f.variadic != nil {
		for i := g.r.Intn(3); i > 0; i-- {
			parts = append(parts, g.expr(f.variadic, depth-1))
		}
	}
	return strings.Join(parts, " ")
}

func (g *G) effect() {
	w := []int{10, 3, 2, 0, 0, 0, 1}
	if g.o.Graphics {
		w[3] = 6
	}
	if g.o.Sleeps {
		w[4] = 2
	}
	if g.o.Reads {
		w[5] = 2
	}
	switch g.r.Pick(w) {
	case 0:
		n := g.r.Range(1, 3)
		parts := []string{"print"}
		for i := 0; i < n; i++ {
			parts = append(parts, g.expr(g.randType(2), 2))
		}
		g.emit("%s", strings.Join(parts, " "))
	case 1:
		if g.r.Chance(0.5) {
			// verbs that do not fit their argument are legal too (fmt prints a %!verb(...) note)
			verbs := []string{"%v", "%s", "%d", "%f", "%t", "%q", "%x", "%5.1f", "%08.3f", "%+v", "%c", "%e", "%g", "%U", "%3d|", "%-6s|", "%%"}
			v1, v2 := verbs[g.r.Intn(len(verbs))], verbs[g.r.Intn(len(verbs))]
			g.emit("printf \"%s %s\\n\" %s %s", v1, v2, g.expr(g.randType(2), 2), g.expr(g.randType(2), 1))
			return
		}
		g.emit("printf \"%%v:%%v\\n\" %s %s", g.expr(g.randType(1), 2), g.expr(Num, 1))
	case 2:
		g.emit("print (repr %s)", g.expr(g.randType(2), 2))
	case 3:
		g.graphics()
	case 4:
		g.emit("sleep %s", []string{"0", "0.001", "0.5", "2", "0.016", "(-0.5)", "0.0001", "(0/0)"}[g.r.Intn(8)])
	case 5:
		v := g.fresh("in")
		g.emit("%s := read", v)
		g.declare(&variable{name: v, ty: Str})
	case 6:
		g.emit("cls")
	}
}

func (g *G) graphics() {
	switch g.r.Intn(14) {
	case 0:
		g.emit("move %s %s", g.expr(Num, 1), g.expr(Num, 1))
	case 1:
		g.emit("line %s %s", g.expr(Num, 1), g.expr(Num, 1))
	case 2:
		g.emit("rect %s %s", g.expr(Num, 1), g.expr(Num, 1))
	case 3:
		g.emit("circle %s", g.expr(Num, 1))
	case 4:
		g.emit("width %s", g.expr(Num, 1))
	case 5:
		g.emit("color %s", []string{`"red"`, `"#00ff00"`, `(hsl 120)`, `(hsl 10 20 30 40)`, `"blue"`}[g.r.Intn(5)])
	case 6:
		g.emit("clear %s", []string{``, `"white"`, `"hsl(0deg 0% 0%)"`}[g.r.Intn(3)])
	case 7:
		g.emit("poly [%s %s] [%s 2] [3 4]", g.expr(Num, 0), g.expr(Num, 0), g.expr(Num, 0))
	case 8:
		g.emit("ellipse %s %s %s", g.expr(Num, 0), g.expr(Num, 0), g.expr(Num, 0))
	case 9:
		g.emit("dash %s %s", g.expr(Num, 0), g.expr(Num, 0))
	case 10:
		g.emit("text %s", g.expr(Str, 1))
	case 11:
		if g.o.FontBad && g.r.Chance(0.5) {
			g.emit("font {foo:1 bar:2 baz:3}")
		} else {
			g.emit("font {size:%s family:\"serif\" align:\"center\"}", []string{"1", "3", "12"}[g.r.Intn(3)])
		}
	case 12:
		switch g.r.Intn(4) {
		case 0:
			g.emit("stroke %s", []string{`"red"`, `"none"`, `(hsl 200 50 50)`}[g.r.Intn(3)])
		case 1:
			g.emit("fill %s", []string{`"blue"`, `"none"`, `"hsl(10deg 50% 50%)"`}[g.r.Intn(3)])
		case 2:
			g.emit("linecap %s", []string{`"round"`, `"butt"`, `"square"`}[g.r.Intn(3)])
		default:
			g.emit("stroke \"red\"")
			g.emit("fill \"blue\"")
			g.emit("linecap \"round\"")
		}
	case 13:
		switch g.r.Intn(3) {
		case 0:
			g.emit("grid")
		case 1:
			g.emit("gridn %s %s", []string{"5", "20", "0.5"}[g.r.Intn(3)], []string{`"gray"`, `"hsl(210deg 50% 50% / 50%)"`}[g.r.Intn(2)])
		default:
			g.emit("grid")
			g.emit("gridn 5 \"gray\"")
		}
	}
}

func (g *G) declStmt() {
	t := g.randType(2)
	name := g.fresh("v")
	switch {
	case t.K == "any" || g.r.Chance(0.25):
		g.emit("%s:%s", name, t)
		g.declare(&variable{name: name, ty: t})
		if g.r.Chance(0.7) {
			g.emit("%s = %s", name, g.expr(t, 2))
		}
		return
	default:
		e := g.expr(t, 2)
		g.emit("%s := %s", name, e)
		// a declaration inferred from an expression of composite type may be
		// typed differently by the parser (e.g. mixed literals become any);
		// record the type we asked for – the parser decides in the end
		g.declare(&variable{name: name, ty: t})
	}
}

func (g *G) assignStmt() {
	if g.r.Chance(0.06) {
		// the predefined globals are ordinary assignable variables; the conversion built-ins write to them as well
		if g.r.Chance(0.5) {
			g.emit("err = %s", g.expr(Bool, 2))
		} else {
			// never a bare variable on the right: plain assignment shares the value object (observed on
			// the pinned tree, C09's business), and a conversion that then writes errmsg in place would
			// quote the variable's own text into itself - exponential growth in a loop
			g.emit("errmsg = \"\" + %s", g.expr(Str, 1))
		}
		if g.r.Chance(0.5) {
			g.emit("print (str2num %s) err errmsg", []string{"\"12x\"", "\"7\"", "\"\""}[g.r.Intn(3)])
		}
		return
	}
	vs := g.visible()
	var ws []*variable
	for _, v := range vs {
		if !v.ro {
			ws = append(ws, v)
		}
	}
	if len(ws) == 0 {
		g.declStmt()
		return
	}
	v := ws[g.r.Intn(len(ws))]
	v.used = true
	if g.inLoop > 0 || g.inFunc != nil || g.inHandler {
		g.noGrow++
		defer func() { g.noGrow-- }()
	}
	// element assignments never mention containers on the right-hand side:
	// the generator must not build a value that contains itself (printing
	// one overflows the Go stack – a pure-input crash outside this technique)
	elem := func(t *Ty) string {
		g.noGrow++
		defer func() { g.noGrow-- }()
		return g.expr(t, 2)
	}
	switch {
	case v.ty.K == "array" && g.r.Chance(0.4):
		g.emit("%s[%s] = %s", v.name, g.idx(), elem(v.ty.Sub))
	case v.ty.K == "map" && g.r.Chance(0.6):
		k := keyPool[g.r.Intn(len(keyPool))]
		if g.r.Chance(0.5) {
			g.emit("%s.%s = %s", v.name, k, elem(v.ty.Sub))
		} else {
			g.emit("%s[%q] = %s", v.name, k, elem(v.ty.Sub))
		}
	case v.ty.K == "map" && g.r.Chance(0.5):
		g.emit("del %s %q", v.name, keyPool[g.r.Intn(len(keyPool))])
	default:
		g.emit("%s = %s", v.name, g.expr(v.ty, 2))
	}
}

func (g *G) closeScope() {
	for _, v := range g.pop() {
		if !v.used && !g.o.Unused {
			g.emit("print %s", v.name)
		}
	}
}

// shadowLate ends a scope by first using a variable of an enclosing scope and
// then declaring a local of the same name with a DIFFERENT type. Whatever runs
// later (the next loop iteration, the next event, the code after the block)
// must still see the outer variable with its own type.
func (g *G) shadowLate() {
	if g.o.NoShadow || !g.r.Chance(0.25) || len(g.scopes) < 2 {
		return
	}
	cur := g.scopes[len(g.scopes)-1]
	var outer []*variable
	for _, sc := range g.scopes[:len(g.scopes)-1] {
		for _, v := range sc {
			dup := false
			for _, c := range cur {
				if c.name == v.name {
					dup = true
				}
			}
			if !dup && !v.ro {
				outer = append(outer, v)
			}
		}
	}
	if len(outer) == 0 {
		return
	}
	ov := outer[g.r.Intn(len(outer))]
	ov.used = true
	nt := []*Ty{Num, Str, Bool}[g.r.Intn(3)]
	if nt.Eq(ov.ty) {
		nt = []*Ty{Str, Bool, Num}[g.r.Intn(3)]
		if nt.Eq(ov.ty) {
			return
		}
	}
	g.emit("print \"pre\" %s", ov.name)
	g.emit("%s := %s", ov.name, g.lit(nt, 0))
	g.emit("print \"shadowed\" %s (typeof %s)", ov.name, ov.name)
	g.declare(&variable{name: ov.name, ty: nt, used: true, ro: true})
}

func (g *G) block(depth int, n int) {
	g.indent++
	g.push()
	for i := 0; i < n; i++ {
		g.stmt(depth)
	}
	g.shadowLate()
	g.closeScope()
	g.indent--
}

func (g *G) mapLitStmt() {
	// multi-entry map literal whose values have effects / can fail
	var pf *fn
	for _, f := range g.funcs {
		if !f.pure && f.ret != nil && len(f.params) == 1 && f.variadic == nil && g.callable(f) {
			pf = f
			break
		}
	}
	name := g.fresh("m")
	n := g.r.Range(2, 4)
	perm := g.r.Perm(len(keyPool))
	parts := make([]string, n)
	var t *Ty
	if pf != nil && g.r.Chance(0.7) {
		t = pf.ret
		for i := range parts {
			parts[i] = keyPool[perm[i]] + ":(" + pf.name + " " + g.expr(pf.params[0], 1) + ")"
		}
	} else {
		t = g.randType(1)
		for i := range parts {
			parts[i] = keyPool[perm[i]] + ":" + g.expr(t, 2)
		}
	}
	g.emit("%s := {%s}", name, strings.Join(parts, " "))
	g.declare(&variable{name: name, ty: Map(t)})
}

func (g *G) stmt(depth int) {
	g.budget--
	if g.budget < 0 {
		g.effect()
		return
	}
	w := []int{6, 4, 4, 2, 2, 2, 2, 1, 1, 1, 0, 0}
	if depth >= g.o.MaxDepth {
		w = []int{6, 4, 4, 0, 0, 0, 2, 1, 0, 1, 0, 0}
	}
	if g.o.Tests && g.inFunc == nil && !g.inHandler {
		w[10] = 2
	}
	if g.o.MapLits {
		w[11] = 4
	}
	if !g.o.Panics {
		w[7] = 0
	}
	switch g.r.Pick(w) {
	case 0:
		g.effect()
	case 1:
		g.declStmt()
	case 2:
		g.assignStmt()
	case 3: // if
		g.emit("if %s", g.expr(Bool, 2))
		g.block(depth+1, g.r.Range(1, 3))
		if g.r.Chance(0.4) {
			g.emit("else if %s", g.expr(Bool, 2))
			g.block(depth+1, g.r.Range(1, 2))
		}
		if g.r.Chance(0.5) {
			g.emit("else")
			g.block(depth+1, g.r.Range(1, 2))
		}
		g.emit("end")
	case 4: // counted while
		c := g.fresh("c")
		g.emit("%s := 0", c)
		g.declare(&variable{name: c, ty: Num, ro: true, used: true})
		g.emit("while %s < %d", c, g.r.Range(0, 4))
		g.inLoop++
		g.indent++
		g.emit("%s = %s + 1", c, c)
		g.indent--
		g.block(depth+1, g.r.Range(1, 3))
		g.inLoop--
		g.emit("end")
	case 5: // for
		g.forStmt(depth)
	case 6: // call statement
		var cands []*fn
		for _, f := range g.funcs {
			if g.callable(f) {
				cands = append(cands, f)
			}
		}
		if len(cands) == 0 {
			g.effect()
			return
		}
		f := cands[g.r.Intn(len(cands))]
		if f.ret == nil {
			g.emit("%s", g.callText(f, 2))
		} else {
			g.emit("print %s", "("+g.callText(f, 2)+")")
		}
	case 7: // panicking things
		switch g.r.Intn(5) {
		case 0:
			g.emit("if %s", g.expr(Bool, 1))
			g.indent++
			g.emit("panic %s", g.lit(Str, 0))
			g.indent--
			g.emit("end")
		case 1:
			g.emit("if %s", g.expr(Bool, 1))
			g.indent++
			g.emit("exit %s", []string{"0", "1", "3", "2.5"}[g.r.Intn(4)])
			g.indent--
			g.emit("end")
		case 2:
			g.emit("print %s[%s]", g.lit(Arr(Num), 1), g.idx())
		case 3:
			if s, ok := g.useVar(Map(Num)); ok {
				g.emit("print %s[%s]", s, g.lit(Str, 0))
			} else {
				g.effect()
			}
		case 4:
			if g.o.Rand {
				g.emit("print (rand %s)", []string{"0", "-1", "0.5", "(0/0)", "3000000000"}[g.r.Intn(5)])
			} else {
				g.emit("print ([1 2] * %s)", []string{"-1", "1.5", "2"}[g.r.Intn(3)])
			}
		}
	case 8: // break inside loop / return inside func: must be last in block – emit guarded
		if g.inLoop > 0 {
			g.emit("if %s", g.expr(Bool, 1))
			g.indent++
			g.emit("break")
			g.indent--
			g.emit("end")
		} else {
			g.effect()
		}
	case 9: // while true with break
		c := g.fresh("c")
		g.emit("%s := 0", c)
		g.declare(&variable{name: c, ty: Num, ro: true, used: true})
		g.emit("while true")
		g.inLoop++
		g.indent++
		g.emit("%s = %s + 1", c, c)
		g.emit("if %s > %d", c, g.r.Range(0, 3))
		g.indent++
		g.emit("break")
		g.indent--
		g.emit("end")
		g.indent--
		g.block(depth+1, g.r.Range(1, 2))
		g.inLoop--
		g.emit("end")
	case 10: // test
		switch g.r.Intn(3) {
		case 0:
			g.emit("test %s", g.expr(Bool, 2))
		case 1:
			t := g.randType(1)
			g.emit("test %s %s", g.expr(t, 1), g.expr(t, 1))
		case 2:
			g.emit("test %s %s \"msg %%v\" %s", g.expr(Num, 1), g.expr(Num, 1), g.expr(Num, 0))
		}
	case 11:
		g.mapLitStmt()
	}
}

func (g *G) forStmt(depth int) {
	v := g.fresh("i")
	named := g.r.Chance(0.8)
	hdr := "for "
	if named {
		hdr += v + " := "
	}
	var vt *Ty
	switch g.r.Intn(6) {
	case 0:
		hdr += fmt.Sprintf("range %d", g.r.Range(0, 4))
		vt = Num
	case 1:
		hdr += fmt.Sprintf("range %d %d", g.r.Range(-1, 2), g.r.Range(2, 5))
		vt = Num
	case 2:
		hdr += "range " + []string{"0 3 1", "4 0 -2", "0 1 0.25", "1 2 0.5", "3 0 -1"}[g.r.Intn(5)]
		vt = Num
	case 3:
		t := g.randType(0)
		hdr += "range " + g.expr(Arr(t), 1)
		vt = t
	case 4:
		hdr += "range " + g.expr(Str, 1)
		vt = Str
	case 5:
		hdr += "range " + g.expr(Map(g.randType(0)), 1)
		vt = Str
	}
	// now and then the loop variable takes the name of an outer variable of ANOTHER
	// type and the loop is left by break: whatever follows the loop must see the outer one again
	var outer *variable
	if named && !g.o.NoShadow && g.r.Chance(0.12) {
		for _, sc := range g.scopes {
			for _, ov := range sc {
				if !ov.ro && !ov.ty.Eq(vt) && (ov.ty.K == "num" || ov.ty.K == "string" || ov.ty.K == "bool") && outer == nil && g.r.Chance(0.5) {
					outer = ov
				}
			}
		}
		if outer != nil {
			hdr = strings.Replace(hdr, "for "+v+" := ", "for "+outer.name+" := ", 1)
			v = outer.name
			outer.used = true
		}
	}
	g.emit("%s", hdr)
	g.inLoop++
	g.indent++
	g.push()
	if named {
		g.declare(&variable{name: v, ty: vt, ro: true, used: outer != nil})
	}
	n := g.r.Range(1, 3)
	for i := 0; i < n; i++ {
		g.stmt(depth + 1)
	}
	if outer != nil {
		g.emit("print \"loopvar\" %s", v)
		g.emit("if %s", g.expr(Bool, 1))
		g.indent++
		g.emit("break")
		g.indent--
		g.emit("end")
	}
	g.shadowLate()
	g.closeScope()
	g.indent--
	g.inLoop--
	g.emit("end")
	if outer != nil {
		g.emit("print \"after loop\" %s (typeof %s) %s", outer.name, outer.name, g.expr(outer.ty, 1))
	}
}

func (g *G) funcDef(f *fn) {
	hdr := "func " + f.name
	if f.ret != nil {
		hdr += ":" + f.ret.String()
	}
	saved := g.scopes
	g.scopes = [][]*variable{g.globals}
	g.push()
	for _, p := range f.params {
		n := g.fresh("p")
		hdr += " " + n + ":" + p.String()
		g.declare(&variable{name: n, ty: p, ro: true})
	}
	if f.variadic != nil {
		n := g.fresh("p")
		hdr += " " + n + ":" + f.variadic.String() + "..."
		g.declare(&variable{name: n, ty: Arr(f.variadic), ro: true})
	}
	g.emit("%s", hdr)
	g.inFunc = f
	g.indent++
	if !f.pure {
		g.emit("print %q %s", f.name, g.paramList())
	}
	n := g.r.Range(0, 3)
	for i := 0; i < n; i++ {
		if f.pure {
			if g.r.Chance(0.5) {
				g.declStmt()
			} else {
				g.assignLocal()
			}
		} else {
			g.stmt(1)
		}
	}
	// all params must be used
	for _, v := range g.scopes[len(g.scopes)-1] {
		if !v.used && !g.o.Unused {
			if f.pure {
				tmp := g.fresh("u")
				g.emit("%s := %s", tmp, v.name)
				g.emit("%s = %s", tmp, v.name)
			} else {
				g.emit("print %s", v.name)
			}
			v.used = true
		}
	}
	if f.ret != nil {
		g.emit("return %s", g.expr(f.ret, 2))
	} else if !f.pure {
		g.shadowLate()
	}
	g.indent--
	g.pop()
	g.inFunc = nil
	g.emit("end")
	g.scopes = saved
}

func (g *G) paramList() string {
	var parts []string
	for _, v := range g.scopes[len(g.scopes)-1] {
		v.used = true
		parts = append(parts, v.name)
	}
	return strings.Join(parts, " ")
}

func (g *G) assignLocal() {
	s := g.scopes[len(g.scopes)-1]
	var ws []*variable
	for _, v := range s {
		if !v.ro {
			ws = append(ws, v)
		}
	}
	if len(ws) == 0 {
		g.declStmt()
		return
	}
	v := ws[g.r.Intn(len(ws))]
	v.used = true
	g.noGrow++
	g.emit("%s = %s", v.name, g.expr(v.ty, 2))
	g.noGrow--
}

func (g *G) handler(name string, withParams bool, underscore int) {
	sig := handlerSigs[name]
	hdr := "on " + name
	saved := g.scopes
	g.scopes = [][]*variable{g.globals}
	g.push()
	g.inHandler = true
	if withParams {
		for i, p := range sig {
			if underscore&(1<<i) != 0 {
				hdr += " _:" + p.String()
				continue
			}
			n := g.fresh("e")
			hdr += " " + n + ":" + p.String()
			g.declare(&variable{name: n, ty: p, ro: true})
		}
	}
	g.emit("%s", hdr)
	g.indent++
	g.emit("print \"on %s\" %s", name, g.paramList())
	// shadow a global now and then
	if len(g.globals) > 0 && g.r.Chance(0.5) {
		gv := g.globals[g.r.Intn(len(g.globals))]
		g.emit("%s := %s", gv.name, g.lit(gv.ty, 1))
		g.emit("print \"shadow\" %s", gv.name)
		// from here on the name refers to the local: keep the model simple by
		// not generating further uses that rely on which one is meant (same type)
	}
	n := g.r.Range(1, 4)
	for i := 0; i < n; i++ {
		g.stmt(1)
	}
	for _, v := range g.scopes[len(g.scopes)-1] {
		if !v.used && !g.o.Unused {
			g.emit("print %s", v.name)
		}
	}
	if !g.o.NoPrintAll {
		g.printGlobals()
	}
	g.shadowLate()
	g.indent--
	g.pop()
	g.inHandler = false
	g.emit("end")
	g.scopes = saved
}

func (g *G) printGlobals() {
	parts := []string{"print \"G\""}
	for _, v := range g.globals {
		v.used = true
		parts = append(parts, v.name)
	}
	parts = append(parts, "err", "errmsg")
	g.emit("%s", strings.Join(parts, " "))
}

// Generate produces one program.
func (g *G) Generate() *Program {
	p := &Program{Params: map[string]bool{}}
	g.budget = g.o.Stmts * 4
	g.push()
	// function signatures first so that calls can be generated anywhere
	for i := 0; i < g.o.Funcs; i++ {
		f := &fn{name: g.fresh("f"), pure: g.r.Chance(0.4), idx: i}
		for j := g.r.Intn(3); j > 0; j-- {
			f.params = append(f.params, g.randType(1))
		}
		if g.r.Chance(0.2) {
			f.variadic = g.randType(0)
			f.params = nil // a variadic parameter cannot be combined with others
		}
		if g.r.Chance(0.7) {
			f.ret = g.randType(1)
		}
		if f.pure && f.ret == nil {
			f.ret = Num
		}
		g.funcs = append(g.funcs, f)
	}
	if g.o.Comments {
		g.emit("// generated program")
	}
	// a few globals of every flavour up front so that functions and handlers share state
	for _, t := range []*Ty{Num, Str, Arr(Num), Map(Any)} {
		if g.r.Chance(0.7) {
			name := g.fresh("g")
			if t.K == "map" {
				g.emit("%s:%s", name, t)
			} else {
				g.emit("%s := %s", name, g.lit(t, 1))
			}
			g.declare(&variable{name: name, ty: t})
		}
	}
	for i := 0; i < g.o.Stmts; i++ {
		g.stmt(0)
		if g.o.Comments && g.r.Chance(0.15) {
			g.emit("// c%d", i)
		}
	}
	if g.o.NearMiss {
		for i := g.r.Range(1, 3); i > 0; i-- {
			switch g.r.Intn(6) {
			case 0:
				g.emit("print undefinedname%d", i)
			case 1:
				g.emit("%s := 1 + \"a\"", g.fresh("bad"))
			case 2:
				g.emit("if 1")
				g.emit("end")
			case 3:
				g.emit("x%d:num", i)
				g.emit("x%d = \"s\"", i)
			case 4:
				g.emit("print )")
			case 5:
				g.emit("unknownfn 1 2")
			}
		}
	}
	if g.o.Unused {
		for i := g.r.Range(2, 4); i > 0; i-- {
			g.emit("%s := %s", g.fresh("unused"), g.lit(g.randType(1), 1))
		}
		g.emit("if true")
		g.indent++
		for i := g.r.Range(2, 3); i > 0; i-- {
			g.emit("%s := %s", g.fresh("unused"), g.lit(Num, 0))
		}
		g.indent--
		g.emit("end")
	}
	if !g.o.NoPrintAll {
		g.printGlobals()
	}
	top := g.scopes[0]
	for _, v := range top {
		if !v.used && !g.o.Unused {
			g.emit("print %s", v.name)
			v.used = true
		}
	}
	if g.o.Endless {
		g.emit("while true")
		g.indent++
		switch g.r.Intn(3) {
		case 0:
			g.emit("print \"tick\"")
		case 1:
			g.emit("sleep 0.01")
		case 2:
			c := g.fresh("c")
			g.emit("%s := 1", c)
			g.emit("%s = %s + 1", c, c)
		}
		g.indent--
		g.emit("end")
	}
	for _, f := range g.funcs {
		g.emit("")
		g.funcDef(f)
	}
	if g.o.Handlers {
		set := g.o.HandlerSet
		if set == nil {
			for _, n := range AllEvents {
				if g.r.Chance(0.5) {
					set = append(set, n)
				}
			}
			if len(set) == 0 {
				set = []string{AllEvents[g.r.Intn(len(AllEvents))]}
			}
		}
		for _, n := range set {
			g.emit("")
			withParams := g.r.Chance(0.75)
			us := 0
			if withParams && g.r.Chance(0.3) {
				us = g.r.Intn(1 << len(handlerSigs[n]))
			}
			g.handler(n, withParams, us)
			p.Handlers = append(p.Handlers, n)
			p.Params[n] = withParams
		}
	}
	p.Text = strings.Join(g.out, "\n") + "\n"
	p.Reads = strings.Count(p.Text, "read")
	return p
}
