package l2

import (
	"math/rand"

	"evylang.dev/evy/pkg/evaluator"
	"evylang.dev/evy/vdrv/core"
)

func setRand(seed int64) {
	if seed == 0 {
		seed = 1
	}
	evaluator.RandSource = rand.New(rand.NewSource(seed)) //nolint:gosec
}

func topFrame() string { return core.TopEvyFrame() }
