// Package l2 is the simulated browser (level L2): a discrete-event model of
// frontend/play/index.js under which the REAL pkg/wasm glue runs – main,
// evaluate, handleEvents, stop, the on* exports, alloc/getString, jsPlatform
// and sleepingYielder with its polled Read. Go code runs until it sleeps;
// then the JS event loop runs every task that is due. One goroutine, virtual
// time only.
package l2

import (
	"container/heap"
	"fmt"
	"math"
	"strconv"
	"strings"
	"time"
	"unsafe"

	"evylang.dev/evy/pkg/evaluator"
	wasmsim "evylang.dev/evy/pkg/wasm"
	"evylang.dev/evy/vdrv/core"
	"evylang.dev/evy/vsim/maporder"
	"evylang.dev/evy/vsim/simrand"
	"evylang.dev/evy/vsim/simtime"
)

type task struct {
	at   int64
	seq  int
	kind string // event | line | stop | frame
	ev   core.Event
	line string
}

type taskHeap []*task

func (h taskHeap) Len() int { return len(h) }
func (h taskHeap) Less(i, j int) bool {
	return h[i].at < h[j].at || h[i].at == h[j].at && h[i].seq < h[j].seq
}
func (h taskHeap) Swap(i, j int)       { h[i], h[j] = h[j], h[i] }
func (h *taskHeap) Push(x interface{}) { *h = append(*h, x.(*task)) }
func (h *taskHeap) Pop() interface{} {
	old := *h
	n := len(old)
	t := old[n-1]
	*h = old[:n-1]
	return t
}

// Opts tunes one L2 run.
type Opts struct {
	StopWhenIdle  bool  // click Stop once every scripted task is done and the system is idle
	StopAtNs      int64 // click Stop at this virtual time (0 = not)
	AutoType      bool  // type line i+1 only after line i was consumed
	RelativeToReg bool  // event times count from the registration of the first handler
	MaxVirtualNs  int64
	MaxSteps      int64
	Actions       string
}

// Result of one L2 run.
type Result struct {
	Effects          []string     // import calls in L1 effect format
	EffAt            []int64      // virtual time of each effect
	Calls            []core.Event // on* exports called by the browser, in order (with the payloads used)
	LinesRead        []string
	Registered       []string
	PrepareUI        string
	Errors           []string // jsError texts
	SourceSet        string
	AfterStop        bool
	AfterStopAt      int64
	StopClicked      bool
	StopAt           int64
	StopAtEffect     int
	StopAtStep       int64
	StepsAfterStop   int64
	ImportsAfterStop []string
	IdleAtStop       bool
	QueueAtEnd       int
	HostPanic        string
	TopFrame         string
	Aborted          string // liveness abort reason
	EndNs            int64
	Steps            int64
	Dropped          int    // events that arrived while no listener was attached
	StopDuring       string // what Go was doing when Stop was clicked: sleep|read-poll|forced-yield|idle
	ArrivedWhileBusy int
	TypeMon          string // first run-time type mismatch seen by the monitor inside eval
	TypeMonChecks    int64
}

// Trace renders the effect trace.
func (r *Result) Trace() string {
	var b strings.Builder
	for i, e := range r.Effects {
		fmt.Fprintf(&b, "%d %s\n", i, e)
	}
	for _, e := range r.Errors {
		fmt.Fprintf(&b, "error %s\n", e)
	}
	return b.String()
}

type abort struct{ why string }

type browser struct {
	sc             *core.Scenario
	o              Opts
	res            *Result
	tasks          taskHeap
	seq            int
	reg            map[string]bool
	regAt          int64
	stopped        bool // the page's `stopped` flag
	box            string
	pendingLines   []string
	animStart      float64
	animOn         bool
	handles        [][]byte
	stopReturned   bool
	lastSleepReads int64
	lastSleepSteps int64
	overdue        int64
	sleeps         int
	scripted       int // scripted tasks not yet run
	inSleep        bool
	sleepKind      string
	deferredEvents []*task
}

func (b *browser) eff(e string) {
	b.res.Effects = append(b.res.Effects, e)
	b.res.EffAt = append(b.res.EffAt, simtime.NowNs)
	if b.stopReturned {
		b.res.ImportsAfterStop = append(b.res.ImportsAfterStop, e)
	}
}

func fnum(v float64) string { return strconv.FormatFloat(v, 'g', -1, 64) }

// str returns a handle-encoded string as the JS side does (ptr<<32 | len).
func (b *browser) str(s string) float64 {
	buf := make([]byte, len(s)+8)
	copy(buf, s)
	b.handles = append(b.handles, buf)
	h := uint64(len(b.handles)) // >= 1: the result is never 0, like {ptr:1,len:0} for ""
	return float64(h<<32 | uint64(len(s)))
}

func (b *browser) decode(ptrLen uint64) (*uint32, int) {
	h := int(ptrLen >> 32)
	n := int(uint32(ptrLen))
	if h < 1 || h > len(b.handles) {
		panic(fmt.Sprintf("simjs: bad string handle %d", h))
	}
	return (*uint32)(unsafe.Pointer(&b.handles[h-1][0])), n
}

// toWasm mirrors stringToMem: alloc in Go memory, copy the UTF-8 bytes.
func toWasm(s string) (*uint32, int) {
	if s == "" {
		var dummy [8]byte
		return (*uint32)(unsafe.Pointer(&dummy[0])), 0
	}
	p := wasmsim.SimX_alloc(uint32(len(s) + 4)) // +4: getString reads 32-bit words
	dst := unsafe.Slice(p, len(s))
	copy(dst, s)
	return (*uint32)(unsafe.Pointer(p)), len(s)
}

func (b *browser) bind() {
	wasmsim.Sim_decodePtrLen = b.decode
	wasmsim.Sim_evySource = func() float64 { return b.str(b.sc.Program) }
	wasmsim.Sim_jsActions = func() float64 { return b.str(b.o.Actions) }
	wasmsim.Sim_setEvySource = func(s string) { b.res.SourceSet = s }
	wasmsim.Sim_jsPrepareUI = func(s string) {
		// a set: the page builds an object from the names
		names := strings.Split(s, ",")
		sortStrings(names)
		b.res.PrepareUI = strings.Join(names, ",")
	}
	wasmsim.Sim_jsError = func(s string) { b.res.Errors = append(b.res.Errors, s) }
	wasmsim.Sim_jsPrint = func(s string) { b.eff("print " + strconv.Quote(s)) }
	wasmsim.Sim_jsCls = func() { b.eff("cls") }
	wasmsim.Sim_jsRead = b.jsRead
	wasmsim.Sim_afterStop = func() {
		b.res.AfterStop = true
		b.res.AfterStopAt = simtime.NowNs
		b.stopped = true
		b.reg = map[string]bool{}
		b.animOn = false
	}
	wasmsim.Sim_registerEventHandler = func(name string) {
		b.res.Registered = append(b.res.Registered, name)
		if len(b.reg) == 0 {
			b.regAt = simtime.NowNs
			if b.o.RelativeToReg {
				for _, t := range b.deferredEvents {
					t.at += b.regAt
					heap.Push(&b.tasks, t)
				}
				b.deferredEvents = nil
			}
		}
		b.reg[name] = true
		if name == "animate" && !b.animOn {
			b.animOn = true
			b.push(&task{at: simtime.NowNs + 16_666_667, kind: "frame"})
		}
	}
	wasmsim.Sim_move = func(x, y float64) { b.eff("move " + fnum(x) + " " + fnum(y)) }
	wasmsim.Sim_line = func(x, y float64) { b.eff("line " + fnum(x) + " " + fnum(y)) }
	wasmsim.Sim_rect = func(x, y float64) { b.eff("rect " + fnum(x) + " " + fnum(y)) }
	wasmsim.Sim_circle = func(r float64) { b.eff("circle " + fnum(r)) }
	wasmsim.Sim_width = func(w float64) { b.eff("width " + fnum(w)) }
	wasmsim.Sim_color = func(s string) { b.eff("color " + strconv.Quote(s)) }
	wasmsim.Sim_clear = func(s string) { b.eff("clear " + strconv.Quote(s)) }
	wasmsim.Sim_gridn = func(u float64, s string) { b.eff("gridn " + fnum(u) + " " + strconv.Quote(s)) }
	wasmsim.Sim_poly = func(s string) { b.eff("poly " + strconv.Quote(s)) }
	wasmsim.Sim_ellipse = func(x, y, rx, ry, rot, a0, a1 float64) {
		b.eff("ellipse " + fnum(x) + " " + fnum(y) + " " + fnum(rx) + " " + fnum(ry) + " " + fnum(rot) + " " + fnum(a0) + " " + fnum(a1))
	}
	wasmsim.Sim_stroke = func(s string) { b.eff("stroke " + strconv.Quote(s)) }
	wasmsim.Sim_fill = func(s string) { b.eff("fill " + strconv.Quote(s)) }
	wasmsim.Sim_dash = func(s string) { b.eff("dash " + strconv.Quote(s)) }
	wasmsim.Sim_linecap = func(s string) { b.eff("linecap " + strconv.Quote(s)) }
	wasmsim.Sim_text = func(s string) { b.eff("text " + strconv.Quote(s)) }
	wasmsim.Sim_font = func(s string) { b.eff("font " + canonJSON(s)) }
}

func sortStrings(a []string) {
	for i := 1; i < len(a); i++ {
		for j := i; j > 0 && a[j] < a[j-1]; j-- {
			a[j], a[j-1] = a[j-1], a[j]
		}
	}
}

// canonJSON sorts the members of the flat JSON object jsPlatform.Font builds
// (JS parses it into an object: member order is not observable).
func canonJSON(s string) string {
	t := strings.TrimSuffix(strings.TrimPrefix(s, "{"), "}")
	if t == "" {
		return "{}"
	}
	var parts []string
	depth, inStr, start := 0, false, 0
	for i := 0; i < len(t); i++ {
		c := t[i]
		switch {
		case inStr:
			if c == '\\' {
				i++
			} else if c == '"' {
				inStr = false
			}
		case c == '"':
			inStr = true
		case c == '{' || c == '[':
			depth++
		case c == '}' || c == ']':
			depth--
		case c == ',' && depth == 0:
			parts = append(parts, t[start:i])
			start = i + 1
		}
	}
	parts = append(parts, t[start:])
	sortStrings(parts)
	return "{" + strings.Join(parts, ",") + "}"
}

func (b *browser) push(t *task) {
	b.seq++
	t.seq = b.seq
	heap.Push(&b.tasks, t)
}

// jsRead mirrors the page: text up to the first newline, and the WHOLE box is cleared.
func (b *browser) jsRead() float64 {
	if b.stopReturned {
		b.res.ImportsAfterStop = append(b.res.ImportsAfterStop, "jsRead")
	}
	if b.o.AutoType && b.box == "" && len(b.pendingLines) > 0 {
		b.box = b.pendingLines[0] + "\n"
		b.pendingLines = b.pendingLines[1:]
	}
	idx := strings.Index(b.box, "\n")
	if idx < 0 {
		return 0
	}
	line := b.box[:idx]
	b.box = ""
	b.res.LinesRead = append(b.res.LinesRead, line)
	b.eff("read " + strconv.Quote(line))
	return b.str(line)
}

func (b *browser) clickStop(during string) {
	if b.stopped {
		return
	}
	b.stopped = true
	b.res.StopClicked = true
	b.res.StopAt = simtime.NowNs
	b.res.StopAtEffect = len(b.res.Effects)
	b.res.StopAtStep = simtime.Steps
	b.res.StopDuring = during
	b.res.IdleAtStop = during == "idle"
	wasmsim.SimX_stop()
	b.stopReturned = true
}

func (b *browser) dispatch(t *task) {
	switch t.kind {
	case "stop":
		b.clickStop(b.sleepKind)
	case "line":
		b.box += t.line + "\n"
	case "frame":
		if b.stopped || !b.animOn {
			return
		}
		ts := float64(simtime.NowNs) / 1e6
		if math.IsNaN(b.animStart) {
			b.animStart = ts
		}
		el := ts - b.animStart
		wasmsim.SimX_onAnimate(el)
		b.res.Calls = append(b.res.Calls, core.Event{Name: "animate", Num: []string{core.FmtNum(el)}, AtNs: simtime.NowNs})
		b.push(&task{at: simtime.NowNs + 16_666_667, kind: "frame"})
	case "event":
		b.scripted--
		e := t.ev
		if b.stopped || !b.reg[e.Name] {
			b.res.Dropped++
			return
		}
		if wasmsim.SimQueueLen() > 0 || b.sleepKind != "idle" {
			b.res.ArrivedWhileBusy++
		}
		ps := e.Params()
		switch e.Name {
		case "key":
			p, n := toWasm(ps[0].(string))
			wasmsim.SimX_onKey(p, n)
		case "input":
			p1, n1 := toWasm(ps[0].(string))
			p2, n2 := toWasm(ps[1].(string))
			wasmsim.SimX_onInput(p1, n1, p2, n2)
		case "down":
			wasmsim.SimX_onDown(ps[0].(float64), ps[1].(float64))
		case "up":
			wasmsim.SimX_onUp(ps[0].(float64), ps[1].(float64))
		case "move":
			wasmsim.SimX_onMove(ps[0].(float64), ps[1].(float64))
		case "animate":
			return // frames come from the animation loop, not from the script
		}
		e.AtNs = simtime.NowNs
		b.res.Calls = append(b.res.Calls, e)
	}
}

// onSleep is the JS event loop: it runs while Go sleeps.
func (b *browser) onSleep(d time.Duration) {
	start := simtime.NowNs
	end := start + int64(d)
	reads := simtime.Reads - b.lastSleepReads
	// what is Go doing? (for probes only)
	switch {
	case d == 50*time.Millisecond:
		b.sleepKind = "read-poll"
	case d == time.Millisecond && reads <= 2 && b.sleeps > 0 && simtime.Steps == b.lastSleepSteps && wasmsim.SimQueueLen() == 0 && len(b.res.Registered) > 0:
		// two consecutive minimal sleeps without a single evaluation step in
		// between: the handleEvents loop is spinning on an empty queue
		b.sleepKind = "idle"
	case d == time.Millisecond:
		b.sleepKind = "forced-yield"
	default:
		b.sleepKind = "sleep"
	}
	for b.tasks.Len() > 0 && b.tasks[0].at <= end {
		t := heap.Pop(&b.tasks).(*task)
		if t.at > simtime.NowNs {
			simtime.NowNs = t.at
		}
		b.dispatch(t)
	}
	if b.o.StopWhenIdle && !b.stopped && b.sleepKind == "idle" && wasmsim.SimQueueLen() == 0 && b.scripted == 0 && len(b.deferredEvents) == 0 && !b.hasScripted() {
		b.clickStop("idle")
	}
	if simtime.NowNs < end {
		simtime.NowNs = end
	}
	b.lastSleepReads = simtime.Reads
	b.lastSleepSteps = simtime.Steps
	b.sleeps++
	b.sleepKind = ""
	if b.o.MaxVirtualNs > 0 && simtime.NowNs > b.o.MaxVirtualNs && !b.stopped {
		// the scenario is over: the user clicks Stop
		b.clickStop("timeout")
	}
	if b.res.StopClicked && simtime.NowNs-b.res.StopAt > 10_000_000_000 {
		panic(abort{"afterStop not reached within 10 s of virtual time after the Stop click"})
	}
}

func (b *browser) hasScripted() bool {
	for _, t := range b.tasks {
		if t.kind == "event" || t.kind == "line" || t.kind == "stop" {
			return true
		}
	}
	return false
}

func (b *browser) onTick() {
	if simtime.Steps%4096 == 0 {
		core.Heartbeat()
	}
	// a Stop click that is due can only be delivered while Go sleeps: if Go does
	// not give the browser control for a long stretch of evaluation steps the
	// program is not interruptible (today's policy yields every ~1000 steps + 100 ms)
	if !b.stopped && b.tasks.Len() > 0 && b.tasks[0].kind == "stop" && b.tasks[0].at <= simtime.NowNs {
		b.overdue++
		if b.overdue > 400_000 {
			b.res.StopClicked = true
			b.res.StopAt = b.tasks[0].at
			b.res.StopDuring = "never-yielded"
			panic(abort{"a Stop click was due for 400000 evaluation steps but Go never yielded to the browser"})
		}
	} else {
		b.overdue = 0
	}
	if b.res.StopClicked {
		b.res.StepsAfterStop = simtime.Steps - b.res.StopAtStep
		if b.res.StepsAfterStop > 2_000_000 {
			panic(abort{"afterStop not reached within 2e6 evaluation steps after the Stop click"})
		}
	}
	if b.o.MaxSteps > 0 && simtime.Steps > b.o.MaxSteps && !b.stopped {
		b.clickStop("step-budget")
	}
}

// Run executes one scenario at level L2.
func Run(sc *core.Scenario, o Opts) *Result {
	core.Heartbeat()
	if o.Actions == "" {
		o.Actions = "fmt,ui,eval"
	}
	if o.MaxVirtualNs == 0 {
		o.MaxVirtualNs = 120_000_000_000
	}
	if o.MaxSteps == 0 {
		o.MaxSteps = 3_000_000
	}
	res := &Result{}
	b := &browser{sc: sc, o: o, res: res, reg: map[string]bool{}, animStart: math.NaN()}
	maporder.Reset(sc.Schedule.Map)
	epoch := sc.Schedule.EpochNs
	if epoch == 0 {
		epoch = 1_700_000_000_000_000_000
	}
	cost := sc.Schedule.ClockCostNs
	if cost == 0 {
		cost = 20_000
	}
	simtime.Reset(epoch, cost)
	simtime.StepCostNs = cost / 20
	simtime.OnSleep = b.onSleep
	simtime.OnTick = b.onTick
	gs := sc.Schedule.GlobalRand
	if gs == 0 {
		gs = 1
	}
	simrand.Reset(gs)
	wasmsim.SimReset()
	b.bind()
	for i := range sc.Events {
		e := sc.Events[i]
		if e.Name == "animate" {
			continue
		}
		t := &task{at: e.AtNs, kind: "event", ev: e}
		b.scripted++
		if o.RelativeToReg {
			b.seq++
			t.seq = b.seq
			b.deferredEvents = append(b.deferredEvents, t)
		} else {
			b.push(t)
		}
	}
	if o.AutoType {
		b.pendingLines = append([]string(nil), sc.Inputs...)
	} else {
		for i, l := range sc.Inputs {
			at := int64(i+1) * 30_000_000
			if i < len(sc.Schedule.InDelay) {
				at = int64(sc.Schedule.InDelay[i]) * 1_000_000
			}
			b.push(&task{at: at, kind: "line", line: l})
		}
	}
	for _, f := range sc.Faults {
		if f.Kind == "stop-click" {
			b.push(&task{at: f.AtNs, kind: "stop"})
		}
	}
	if o.StopAtNs > 0 {
		b.push(&task{at: o.StopAtNs, kind: "stop"})
	}
	setRand(sc.RandSeed)
	evaluator.SimTypeMonOn = true
	evaluator.SimTypeMonTake()
	checks0 := evaluator.SimTypeMonChecks
	defer func() {
		res.TypeMon = evaluator.SimTypeMonTake()
		res.TypeMonChecks = evaluator.SimTypeMonChecks - checks0
	}()
	func() {
		defer func() {
			if p := recover(); p != nil {
				if a, ok := p.(abort); ok {
					res.Aborted = a.why
					return
				}
				res.HostPanic = fmt.Sprint(p)
				res.TopFrame = topFrame()
			}
		}()
		wasmsim.Main()
	}()
	simtime.OnSleep, simtime.OnTick = nil, nil
	res.EndNs = simtime.NowNs
	res.Steps = simtime.Steps
	res.QueueAtEnd = wasmsim.SimQueueLen()
	return res
}
