// Package work builds the workloads shared by the L1 drivers: generated
// programs (swarm options), corpus programs, probe programs with statically
// known trip counts, event scripts and input scripts.
package work

import (
	"fmt"
	"math"
	"os"
	"path/filepath"
	"sort"
	"strings"

	"evylang.dev/evy/vdrv/core"
	"evylang.dev/evy/vdrv/gen"
	"evylang.dev/evy/vsim/prng"
)

var corpusCache []CorpusFile

// CorpusFile is one .evy file of the snapshot.
type CorpusFile struct {
	Name string
	Text string
}

// Corpus loads the snapshot (sorted by name).
func Corpus(dir string) []CorpusFile {
	if corpusCache != nil {
		return corpusCache
	}
	ents, err := os.ReadDir(dir)
	if err != nil {
		return nil
	}
	var names []string
	for _, e := range ents {
		if strings.HasSuffix(e.Name(), ".evy") {
			names = append(names, e.Name())
		}
	}
	sort.Strings(names)
	for _, n := range names {
		b, err := os.ReadFile(filepath.Join(dir, n))
		if err == nil {
			corpusCache = append(corpusCache, CorpusFile{n, string(b)})
		}
	}
	return corpusCache
}

// NumPayloads is the pool of numeric event payloads.
var NumPayloads = []float64{0, math.Copysign(0, -1), 1, -1, 0.5, 50, 99.99, 100, 1e21, 1e-7, math.MaxFloat64,
	math.SmallestNonzeroFloat64, math.NaN(), math.Inf(1), math.Inf(-1), 33.333333333333336, 7, 12345.678}

// StrPayloads is the pool of string event payloads.
var StrPayloads = []string{"", "a", "Enter", "ArrowLeft", " ", "é", "日本", "𝄞", "é", `"`, `\`, "a\"b\\c", "\n", "tab\t",
	strings.Repeat("x", 300), "true", "12", "%v", "slider-1", "//c",
	// names of keys as browsers old and new report them, and the same words as ordinary values
	"Left", "Right", "Up", "Down", "Esc", "Escape", "Del", "Delete", "Spacebar", "Space", "OS", "Meta", "Apps", "Scroll", "Tab", "Backspace", "Shift", "A", "left", "ENTER", "enter", " a ", "Return"}

// Events draws an event script over the given handler names.
func Events(r *prng.R, handlers []string, maxN int) []core.Event {
	if len(handlers) == 0 {
		return nil
	}
	n := r.Intn(maxN + 1)
	evs := make([]core.Event, 0, n)
	var t int64
	for i := 0; i < n; i++ {
		name := handlers[r.Intn(len(handlers))]
		e := core.Event{Name: name}
		switch name {
		case "key":
			e.Str = []string{StrPayloads[r.Intn(len(StrPayloads))]}
		case "input":
			e.Str = []string{StrPayloads[r.Intn(len(StrPayloads))], StrPayloads[r.Intn(len(StrPayloads))]}
		case "animate":
			e.Num = []string{core.FmtNum(NumPayloads[r.Intn(len(NumPayloads))])}
		default:
			e.Num = []string{core.FmtNum(NumPayloads[r.Intn(len(NumPayloads))]), core.FmtNum(NumPayloads[r.Intn(len(NumPayloads))])}
		}
		t += int64(r.Intn(40)) * 5_000_000
		e.AtNs = t
		evs = append(evs, e)
	}
	return evs
}

// Inputs draws an input script.
func Inputs(r *prng.R, n int) []string {
	pool := []string{"", "x", "hello", "12", "true", "é日本", "a b c", "3.5", "q\"", "-1"}
	in := make([]string, n)
	for i := range in {
		in[i] = pool[r.Intn(len(pool))]
	}
	return in
}

// HandlerNames extracts `on <name>` headers from a program text.
func HandlerNames(src string) []string {
	var hs []string
	for _, l := range strings.Split(src, "\n") {
		if strings.HasPrefix(l, "on ") {
			f := strings.Fields(l)
			if len(f) >= 2 {
				hs = append(hs, f[1])
			}
		}
	}
	return hs
}

// SwarmOpts draws generator options for one run.
func SwarmOpts(r *prng.R) gen.Opts {
	return gen.Opts{
		Stmts:    r.Range(3, 12),
		MaxDepth: r.Range(1, 3),
		Funcs:    r.Intn(4),
		Handlers: r.Chance(0.5),
		Reads:    r.Chance(0.35),
		Sleeps:   r.Chance(0.4),
		Graphics: r.Chance(0.4),
		Rand:     r.Chance(0.3),
		Tests:    r.Chance(0.3),
		Panics:   r.Chance(0.3),
		MapLits:  r.Chance(0.3),
		Specials: r.Chance(0.3),
		Comments: r.Chance(0.3),
		FontBad:  r.Chance(0.1),
	}
}

// Generated builds a scenario from a generated program.
func Generated(r *prng.R, o gen.Opts, prop string, seed uint64, idx int) *core.Scenario {
	g := gen.New(r, o)
	p := g.Generate()
	sc := &core.Scenario{Property: prop, Seed: seed, Index: idx, Level: "L1", Kind: "generated", Program: p.Text,
		RandSeed: int64(r.Intn(1000) + 1), NoTestSummary: r.Chance(0.5), FailFast: o.Tests && r.Chance(0.25), ReplayExact: true}
	sc.Schedule.Map.Default.Kind = "asc"
	nreads := strings.Count(p.Text, "read")
	if nreads > 0 {
		// loops may read more often than the text says; sometimes give too few
		sc.Inputs = Inputs(r, r.Intn(nreads*3+1))
		if r.Chance(0.3) {
			sc.Schedule.InDelay = make([]int, len(sc.Inputs))
			for i := range sc.Schedule.InDelay {
				sc.Schedule.InDelay[i] = r.Intn(3)
			}
		}
	}
	if len(p.Handlers) > 0 {
		sc.Events = Events(r, p.Handlers, 12)
	}
	return sc
}

// FromCorpus builds a scenario from a corpus file.
func FromCorpus(r *prng.R, cf CorpusFile, prop string, seed uint64, idx int) *core.Scenario {
	sc := &core.Scenario{Property: prop, Seed: seed, Index: idx, Level: "L1", Kind: "corpus:" + cf.Name, Program: cf.Text,
		RandSeed: int64(r.Intn(1000) + 1), NoTestSummary: r.Chance(0.5), ReplayExact: true}
	sc.Schedule.Map.Default.Kind = "asc"
	if n := strings.Count(cf.Text, "read"); n > 0 {
		sc.Inputs = Inputs(r, r.Intn(n*3+1))
	}
	if hs := HandlerNames(cf.Text); len(hs) > 0 {
		sc.Events = Events(r, hs, 10)
	}
	return sc
}

// Probe is a program whose structure fixes how often the evaluator must yield
// between two marker effects, independently of the evaluator.
type Probe struct {
	Name     string
	Program  string
	MinYield int // required number of yields between marker "A" and marker "B"
	Events   []core.Event
}

// Probes builds the interruptibility probe programs for trip count n.
func Probes(n int) []Probe {
	ps := []Probe{
		{Name: "while", MinYield: n, Program: fmt.Sprintf("x := 0\nprint \"A\"\nwhile x < %d\n    x = x + 1\nend\nprint \"B\"\n", n)},
		{Name: "for-num", MinYield: n, Program: fmt.Sprintf("x := 0\nprint \"A\"\nfor range %d\n    x = x + 1\nend\nprint \"B\" x\n", n)},
		{Name: "for-num-var", MinYield: n, Program: fmt.Sprintf("x := 0\nprint \"A\"\nfor i := range 0 %d 1\n    x = x + i\nend\nprint \"B\" x\n", n)},
		{Name: "for-array", MinYield: n, Program: fmt.Sprintf("x := 0\narr := [1] * %d\nprint \"A\"\nfor e := range arr\n    x = x + e\nend\nprint \"B\" x\n", n)},
		{Name: "for-string", MinYield: n, Program: fmt.Sprintf("x := 0\ns := %q\nprint \"A\"\nfor c := range s\n    x = x + (len c)\nend\nprint \"B\" x\n", strings.Repeat("é", n))},
		{Name: "for-map", MinYield: 4, Program: "x := 0\nm := {a:1 b:2 c:3 d:4}\nprint \"A\"\nfor k := range m\n    x = x + m[k]\nend\nprint \"B\" x\n"},
		{Name: "calls", MinYield: n, Program: "x := 0\nprint \"A\"\n" + strings.Repeat("x = x + (f 1)\n", n) + "print \"B\" x\nfunc f:num a:num\n    return a\nend\n"},
		{Name: "call-stmts", MinYield: n, Program: "x := 0\nprint \"A\"\n" + strings.Repeat("g\n", n) + "print \"B\" x\nfunc g\n    x = x + 1\nend\n"},
		{Name: "nested-loop", MinYield: n * 3, Program: fmt.Sprintf("x := 0\nprint \"A\"\nfor range %d\n    for range 3\n        x = x + 1\n    end\nend\nprint \"B\" x\n", n)},
		{Name: "while-in-func", MinYield: n, Program: fmt.Sprintf("print \"A\"\nh\nprint \"B\"\nfunc h\n    x := 0\n    while x < %d\n        x = x + 1\n    end\nend\n", n)},
		{Name: "recursion", MinYield: n, Program: fmt.Sprintf("print \"A\"\nr := rec %d\nprint \"B\" r\nfunc rec:num k:num\n    if k <= 0\n        return 0\n    end\n    return 1 + (rec k-1)\nend\n", n)},
		{Name: "handler-loop", MinYield: n, Events: []core.Event{{Name: "key", Str: []string{"a"}}},
			Program: fmt.Sprintf("on key k:string\n    x := 0\n    print \"A\" k\n    while x < %d\n        x = x + 1\n    end\n    print \"B\" x\nend\n", n)},
		{Name: "handler-calls", MinYield: n, Events: []core.Event{{Name: "down", Num: []string{"1", "2"}}},
			Program: "on down x:num y:num\n    z := x + y\n    print \"A\"\n" + strings.Repeat("    z = z + (f 1)\n", n) + "    print \"B\" z\nend\nfunc f:num a:num\n    return a\nend\n"},
	}
	// bodies that do no work of their own: the demand is per iteration and per call, whatever the body is
	ps = append(ps,
		Probe{Name: "for-comment-body", MinYield: n, Program: fmt.Sprintf("print \"A\"\nfor range %d\n    // nothing to do\nend\nprint \"B\"\n", n)},
		Probe{Name: "for-blank-body", MinYield: n, Program: fmt.Sprintf("print \"A\"\nfor i := range %d\n\n    // i is not needed\n\nend\nprint \"B\"\n", n)},
		Probe{Name: "for-array-comment-body", MinYield: n, Program: fmt.Sprintf("arr := [0] * %d\nprint \"A\"\nfor range arr\n    // skip\nend\nprint \"B\"\n", n)},
		Probe{Name: "while-var-cond", MinYield: n, Program: fmt.Sprintf("x := 0\ngo := true\nprint \"A\"\nwhile go\n    x = x + 1\n    go = x < %d\nend\nprint \"B\" x\n", n)},
		Probe{Name: "while-literal-cond-break", MinYield: n, Program: fmt.Sprintf("x := 0\nprint \"A\"\nwhile true\n    x = x + 1\n    if x >= %d\n        break\n    end\nend\nprint \"B\" x\n", n)},
		Probe{Name: "empty-func-calls", MinYield: n, Program: "print \"A\"\n" + strings.Repeat("noop\n", n) + "print \"B\"\nfunc noop\n    // nothing\nend\n"},
		Probe{Name: "literal-return-calls", MinYield: n, Program: "x := 0\nprint \"A\"\n" + strings.Repeat("x = (one)\n", n) + "print \"B\" x\nfunc one:num\n    return 1\nend\n"},
		Probe{Name: "nested-empty-loops", MinYield: n * 2, Program: fmt.Sprintf("print \"A\"\nfor range %d\n    for range 2\n        // inner\n    end\nend\nprint \"B\"\n", n)},
	)
	return ps
}

// Tails are programs whose LAST evaluated thing is a built-in that hands
// control to the platform (sleep, read) or another call: a stop that arrives
// inside it has nothing after it that could notice the flag.
var Tails = []struct {
	Program string
	Inputs  []string
	Events  []core.Event
}{
	{Program: "print \"a\"\nsleep 1\n"},
	{Program: "print \"a\"\ns := read\nprint s\nt := read\n", Inputs: []string{"x"}},
	{Program: "print \"q\"\nx := read\n", Inputs: []string{"one"}},
	{Program: "f\nfunc f\n    print \"in f\"\n    sleep 0.5\nend\n"},
	{Program: "for i := range 3\n    print i\n    sleep 0.1\nend\n"},
	{Program: "n := 0\nwhile n < 2\n    n = n + 1\n    l := read\n    l = l + \"\"\nend\n", Inputs: []string{"a", "b"}},
	{Program: "on key k:string\n    print k\n    sleep 0.2\nend\n", Events: []core.Event{{Name: "key", Str: []string{"a"}}, {Name: "key", Str: []string{"b"}}}},
	{Program: "on down x:num y:num\n    print x y\n    l := read\n    l = l + \"\"\nend\n", Inputs: []string{"in"}, Events: []core.Event{{Name: "down", Num: []string{"1", "2"}}}},
	{Program: "test 1 2\nprint \"after failing test\"\nsleep 1\n"},
	{Program: "test 1 2\nfor i := range 3\n    x := i\n    x = x + 1\nend\n"},
	{Program: "if true\n    print \"t\"\n    sleep 1\nend\n"},
	{Program: "g (h)\nfunc h:num\n    sleep 0.1\n    return 1\nend\nfunc g n:num\n    m := n\n    m = m + 1\n    sleep 0.1\nend\n"},
	// a blocking built-in in flight as (the last) argument of another call: when the stop arrives
	// while it waits, the enclosing call must not happen
	{Program: "print \"hello\" (read)\n"},
	{Program: "print (upper (read)) (len (read))\n", Inputs: []string{"x"}},
	{Program: "printf \"%v!\\n\" (read)\n"},
	{Program: "test \"x\" (read)\nprint \"after\"\n"},
	{Program: "exit (len (read))\n"},
	{Program: "panic (read)\n"},
	{Program: "sleep (len (read))\nprint \"slept\"\n"},
	{Program: "move (str2num (read)) 5\ncircle 1\n"},
	{Program: "a := [(read) \"k\"]\nprint a\n"},
	{Program: "m := {k:(read)}\nprint m\n"},
	{Program: "func show s:string t:string\n    print s t\nend\nshow \"got\" (read)\n"},
	{Program: "if (read) == \"\"\n    print \"empty\"\nelse\n    print \"full\"\nend\n"},
	{Program: "x := (read) + (read)\nprint x\ncls\n", Inputs: []string{"one"}},
	{Program: "for c := range (read)\n    print c\nend\nprint \"done\"\n"},
	{Program: "while (len (read)) > 0\n    print \"more\"\nend\nprint \"done\"\n", Inputs: []string{"a"}},
	{Program: "on key k:string\n    print k (read)\nend\n", Events: []core.Event{{Name: "key", Str: []string{"a"}}}},
	{Program: "on down x:num y:num\n    test (read) \"y\"\n    print x y\nend\n", Events: []core.Event{{Name: "down", Num: []string{"1", "2"}}}},
	{Program: "cls\n"},
	{Program: "print \"only\"\n"},
	{Program: "x := 1\n"},
}

// Endless builds programs that never end by themselves.
func Endless(r *prng.R) (string, []core.Event) { return EndlessK(r.Intn(EndlessShapes)) }

// EndlessShapes is the number of shapes EndlessK knows.
const EndlessShapes = 22

// EndlessK builds endless program number k.
func EndlessK(k int) (string, []core.Event) {
	switch k {
	case 17: // a pause too short to be one (below a nanosecond)
		return "n := 0\nwhile true\n    n = n + 1\n    sleep 0.0000000001\nend\n", nil
	case 18: // a non-positive pause now and then, not in every iteration
		return "n := 0\nwhile true\n    n = n + 1\n    if n % 20 == 0\n        sleep 0\n    end\nend\n", nil
	case 19: // computed pause that has gone negative, in a procedure
		return "budget := 0.001\nfunc pause\n    budget = budget - 0.002\n    sleep budget\nend\nwhile true\n    pause\nend\n", nil
	case 20: // zero pause inside a for loop inside a handler
		return "on down x:num y:num\n    print x y\n    while true\n        for i := range 5\n            sleep 0\n            x = x + i\n        end\n    end\nend\n", []core.Event{{Name: "down", Num: []string{"1", "2"}}}
	case 21: // alternating: a real pause once, then zero pauses for ever
		return "sleep 0.01\nwhile true\n    sleep (0 - 0)\nend\n", nil
	case 11:
		return "p := {x:0 y:0}\nwhile true\n    p.x = p.x + 1\n    p.y = p.x\nend\n", nil
	case 12:
		return "g := {pos:{x:1 y:2} n:0}\nfunc step\n    g.n = g.n + 1\n    g.pos.x = g.pos.x + g.pos.y\nend\nwhile true\n    step\nend\n", nil
	case 13:
		return "arr := [1 2 3]\ni := 0\nwhile true\n    arr[i % 3] = arr[(i + 1) % 3] + 1\n    i = i + 1\n    s := arr[1:]\n    s = s + [i]\nend\n", nil
	case 14:
		return "a:any\na = 1\nn := 0\nwhile true\n    n = n + a.(num)\n    a = n % 7\n    b := (n > 3 and n < 100) or !(n == 5)\n    b = !b\nend\n", nil
	case 15:
		return "m := {a:[1 2] b:[3]}\non key k:string\n    while true\n        m.a = m.a + [(len k)]\n        m.b = m.a[:1]\n        if (len m.a) > 50\n            m.a = [1]\n        end\n    end\nend\n", []core.Event{{Name: "key", Str: []string{"a"}}}
	case 16:
		return "s := \"abc\"\nwhile true\n    c := s[0]\n    t := s[1:] + c\n    s = t\n    for ch := range s\n        c = ch\n    end\nend\n", nil
	case 8:
		return "x := 0\nwhile true\n    x = x + 1\n    sleep 0\nend\n", nil
	case 9:
		return "spent := 0.02\nframe := 0.016\nwhile true\n    sleep frame-spent\n    spent = spent + 0\nend\n", nil
	case 10:
		return "on key k:string\n    print k\n    sleep (-3)\n    while true\n        k = k + \"\"\n    end\nend\n", []core.Event{{Name: "key", Str: []string{"a"}}}
	case 6:
		return "print \"waiting\"\nwhile true\n    // busy wait\nend\n", nil
	case 7:
		return "running := true\nwhile running\n\n    // wait for an event\nend\non key\n    running = false\nend\n", []core.Event{{Name: "key", Str: []string{"q"}}}
	case 0:
		return "x := 0\nwhile true\n    x = x + 1\nend\n", nil
	case 1:
		return "x := 0\nwhile true\n    x = x + 1\n    print x\nend\n", nil
	case 2:
		return "while true\n    f 1\nend\nfunc f a:num\n    b := a\n    b = b + 1\nend\n", nil
	case 3:
		return "print \"top\"\non key k:string\n    print k\n    while true\n        k = k + \"x\"\n    end\nend\n", []core.Event{{Name: "key", Str: []string{"a"}}, {Name: "key", Str: []string{"b"}}}
	case 4:
		return "while true\n    sleep 0.01\nend\n", nil
	default:
		return "while true\n    for i := range 3\n        print i\n        if i == 7\n            break\n        end\n    end\nend\n", nil
	}
}

// AnyWrap builds a program that moves typed composites into any-typed
// containers through every syntactic route (assignment, concatenation,
// repetition, slicing, nesting in literals, arguments, return values, map
// values) and then looks at the elements as any: typeof, ==, type assertion,
// range. The property: "a value stored in an any always carries a concrete
// non-any type". Programs the parser rejects are skipped by the callers.
func AnyWrap(r *prng.R) string {
	var b strings.Builder
	b.WriteString("nums := [2 3]\nstrs := [\"a\" \"b\"]\nrow := [1]\nn := 7\nm := {a:1 b:2}\n")
	arrSrc := []string{"[1] + nums", "nums + [1]", "[1] * 2", "([1 2])", "nums[1:]", "[1] + nums[1:]", "[nums[0] \"x\"]", "nums", "[n] + [n]", "[1] + [2] + nums",
		"[] + nums", "[n true] + [\"s\"]", "strs + [\"c\"]", "[n] * n", "(nums + nums)[:2]", "[m.a n]"}
	nestSrc := []string{"[[1] row]", "[row [1]]", "[row]", "[[1] nums]", "[nums[:1] [n]]", "[[] row]", "[row] + [[2]]"}
	mapSrc := []string{"{a:[1] b:row}", "{a:row b:[1]}", "{a:nums}", "{a:[] b:row}", "{x:[n] y:nums[1:]}"}
	anyMapSrc := []string{"{a:1 b:\"s\"}", "{a:n b:row}", "{a:m}", "m", "{a:nums[0] b:strs[0]}"}
	uses := func(v string, idx string) {
		fmt.Fprintf(&b, "print %s\n", v)
		fmt.Fprintf(&b, "print (typeof %s%s)\n", v, idx)
		fmt.Fprintf(&b, "print (%s%s == %s%s)\n", v, idx, v, idx)
		fmt.Fprintf(&b, "for e := range %s\n    print (typeof e) e\nend\n", v)
	}
	switch r.Intn(11) {
	case 9, 10:
		// the algebra of empty literals: an empty composite has no element type of its own, so what
		// the parser infers for it and what the evaluator builds must be made to agree at every use
		es := []string{"[]", "{}", "([])", "({})", "[[]]", "([[]])", "(([]))", "[] + []", "[] * 3", "[[]] * 2", "[] + [1]", "[1] + []", "[] + [] + [1]", "[[]] + []", "[[]] + [[]]",
			"[[[]]] + [[]]", "[{a:[]}] + [{}]", "{a:[]}", "{a:{}}", "[{}]", "[[] []]", "[[] [1]]", "[{} {a:1}]", "[][:]", "[[]][0]", "{a:[]}.a", "{a:[]}[\"a\"]", "[1][:0]", "[1][1:]",
			"[[]][:1]", "([] + [])", "([] * 2)", "[([])]", "{a:([])}", "[] * 0", "[[]] + [[1]]", "[[1]] + [[]]", "{a:[] b:[1]}", "{a:[1] b:[]}", "[{} {}]"}
		e1, e2 := es[r.Intn(len(es))], es[r.Intn(len(es))]
		switch r.Intn(7) {
		case 0:
			fmt.Fprintf(&b, "x := %s\nprint (typeof x) x (len x) (x == x)\ny := x\nprint (typeof y) y\nfor e := range x\n    print (typeof e) e\nend\n", e1)
		case 1:
			fmt.Fprintf(&b, "a:any\na = %s\nprint (typeof a) a (a == a)\na = %s\nprint (typeof a) a\n", e1, e2)
		case 2:
			fmt.Fprintf(&b, "z := [%s %s]\nprint (typeof z) z\nfor e := range z\n    print (typeof e) e (len e)\nend\nmz := {k:%s j:%s}\nprint (typeof mz) mz (typeof mz.k)\n", e1, e2, e1, e2)
		case 3:
			fmt.Fprintf(&b, "func show v:any\n    print (typeof v) v (v == v)\nend\nshow %s\nshow (%s)\nfunc many v:any...\n    for e := range v\n        print (typeof e) e\n    end\nend\nmany %s (%s) 1\n", e1, e2, e1, e2)
		case 4:
			fmt.Fprintf(&b, "for e := range %s\n    print (typeof e) e\nend\nprint (typeof %s) (len %s)\n", e1, e2, e1)
		case 5:
			fmt.Fprintf(&b, "x := %s\nprint x\nw := [x x]\nprint (typeof w) (typeof w[0])\nq:any\nq = x\nprint (typeof q)\nq = [x]\nprint (typeof q)\n", e1)
		default:
			fmt.Fprintf(&b, "func mk:any\n    return %s\nend\nv := mk\nprint (typeof v) v\nfunc mk2:[]any\n    return %s\nend\nv2 := mk2\nprint (typeof v2) v2\n", e1, []string{"[]", "([])", "[] + []", "[[]]", "[] * 2", "[1][:0]"}[r.Intn(6)])
		}
	case 7, 8:
		// a value held in an any is asserted to a type - the right one or another one
		// (today: an Evy panic) - and then the value is written through one name and read
		// through the other: whatever the assertion lets through, every name must still
		// see values of its own static type
		type held struct{ ty, decl, empty, full, elem, elemTy string }
		hs := []held{
			{"[]num", "h:[]num", "", "h = [1 2]", "5", "num"},
			{"[]string", "h:[]string", "", "h = [\"p\" \"q\"]", "\"z\"", "string"},
			{"[]bool", "h:[]bool", "", "h = [true]", "false", "bool"},
			{"{}num", "h:{}num", "", "h = {a:1}", "5", "num"},
			{"{}string", "h:{}string", "", "h = {a:\"p\"}", "\"z\"", "string"},
			{"{}bool", "h:{}bool", "", "h = {a:true}", "false", "bool"},
			{"[]any", "h:[]any", "", "h = [1 \"s\"]", "av", "any"},
			{"{}any", "h:{}any", "", "h = {a:1 b:\"s\"}", "av", "any"},
			{"[][]num", "h:[][]num", "", "h = [[1]]", "[2]", "[]num"},
			{"{}[]string", "h:{}[]string", "", "h = {a:[\"p\"]}", "[\"z\"]", "[]string"},
		}
		src := hs[r.Intn(len(hs))]
		dst := hs[r.Intn(len(hs))]
		if r.Chance(0.15) {
			dst = src
		}
		b.WriteString("av:any\nav = true\nprint av\n" + src.decl + "\n")
		if r.Chance(0.4) {
			b.WriteString(src.full + "\n")
		}
		b.WriteString("a:any\na = h\n")
		if r.Chance(0.3) {
			b.WriteString("a2:any\na2 = []\na3:any\na3 = {}\nprint (typeof a2) (typeof a3) a2 a3\n")
			if dst.ty[0] == '[' {
				b.WriteString("a = a2\n")
			} else {
				b.WriteString("a = a3\n")
			}
		}
		fmt.Fprintf(&b, "print (typeof a) a\nt := a.(%s)\nprint (typeof t) t\n", dst.ty)
		// write through the asserted name
		if dst.ty[0] == '{' {
			fmt.Fprintf(&b, "t.k = %s\nt[\"k2\"] = %s\n", dst.elem, dst.elem)
		} else {
			fmt.Fprintf(&b, "t = t + [%s]\nif (len t) > 0\n    t[0] = %s\nend\n", dst.elem, dst.elem)
		}
		// and through the original name
		if src.ty[0] == '{' {
			fmt.Fprintf(&b, "h.o = %s\n", src.elem)
		} else {
			fmt.Fprintf(&b, "h = h + [%s]\n", src.elem)
		}
		// read everything back through every name
		b.WriteString("print h (typeof h) t (typeof t) a (typeof a)\n")
		b.WriteString("for e := range h\n    print e\nend\nfor e := range t\n    print e\nend\n")
		if src.ty[0] == '{' {
			fmt.Fprintf(&b, "for k := range h\n    v := h[k]\n    print k v (v == v)\n    w:any\n    w = v\n    print (typeof w)\nend\n")
		} else {
			fmt.Fprintf(&b, "for v := range h\n    print v (v == v)\n    w:any\n    w = v\n    print (typeof w)\nend\n")
		}
		if dst.ty[0] == '{' {
			fmt.Fprintf(&b, "for k := range t\n    v := t[k]\n    print k v (v == v)\n    w:any\n    w = v\n    print (typeof w)\nend\n")
		} else {
			fmt.Fprintf(&b, "for v := range t\n    print v (v == v)\n    w:any\n    w = v\n    print (typeof w)\nend\n")
		}
		b.WriteString("back := a.(" + src.ty + ")\nprint back (back == h)\n")
	case 6:
		// any values holding composites of the same kind but different element
		// types, of equal length and with shared keys, compared pairwise
		vals := []string{"[1]", "[\"one\"]", "[true]", "[[1]]", "[n]", "[strs[0]]", "{k:1}", "{k:\"s\"}", "{k:true}", "{k:[1]}", "nums", "strs", "m", "[1 2]", "[\"a\" \"b\"]", "1", "\"1\"", "true"}
		perm := r.Perm(len(vals))
		k := r.Range(3, 6)
		for i := 0; i < k; i++ {
			fmt.Fprintf(&b, "a%d:any\na%d = %s\n", i, i, vals[perm[i]])
		}
		b.WriteString("anys := [")
		for i := 0; i < k; i++ {
			fmt.Fprintf(&b, "a%d ", i)
		}
		b.WriteString("]\nfor x := range anys\n    for y := range anys\n        print (typeof x) (typeof y) (x == y) (x != y)\n    end\nend\n")
		fmt.Fprintf(&b, "print (a0 == a1) (a1 != a2) ([a0] == [a1]) ({k:a0} == {k:a2})\n")
	case 0:
		fmt.Fprintf(&b, "b:[]any\nb = %s\n", arrSrc[r.Intn(len(arrSrc))])
		uses("b", "[-1]")
		b.WriteString("if (typeof b[0]) == \"num\"\n    x := b[0].(num)\n    print x+1\nend\n")
	case 1:
		fmt.Fprintf(&b, "bb:[][]any\nbb = %s\n", nestSrc[r.Intn(len(nestSrc))])
		uses("bb", "[-1]")
		b.WriteString("for inner := range bb\n    for e := range inner\n        print (typeof e)\n    end\nend\n")
	case 2:
		fmt.Fprintf(&b, "mm:{}[]any\nmm = %s\n", mapSrc[r.Intn(len(mapSrc))])
		b.WriteString("print mm (typeof mm)\nfor k := range mm\n    for e := range mm[k]\n        print k (typeof e) (e == e)\n    end\nend\n")
	case 3:
		fmt.Fprintf(&b, "ma:{}any\nma = %s\n", anyMapSrc[r.Intn(len(anyMapSrc))])
		b.WriteString("print ma (typeof ma)\nfor k := range ma\n    print k (typeof ma[k]) (ma[k] == ma[k])\nend\n")
	case 4:
		fmt.Fprintf(&b, "func show a:[]any\n    for e := range a\n        print (typeof e) e (e == e)\n    end\nend\nshow %s\nshow (%s)\n", arrSrc[r.Intn(len(arrSrc))], arrSrc[r.Intn(len(arrSrc))])
	default:
		fmt.Fprintf(&b, "func mk:[]any\n    return %s\nend\nb := mk\n", arrSrc[r.Intn(len(arrSrc))])
		uses("b", "[0]")
		fmt.Fprintf(&b, "a:any\na = %s\nprint (typeof a) a\nmix := [a n \"s\"]\nprint (typeof mix) (typeof mix[0])\n", arrSrc[r.Intn(len(arrSrc))])
	}
	b.WriteString("print nums strs row n m\n") // every variable must be used
	return b.String()
}

// MapLife builds a program in which the SAME map or array literal is evaluated
// several times (in a procedure, a loop body, a handler) and the resulting
// values then live separate lives: keys deleted from one, inserted into
// another, elements overwritten, earlier values printed again afterwards.
func MapLife(r *prng.R) (string, []core.Event) {
	keys := []string{"a", "b", "c", "d"}
	lit := fmt.Sprintf("{a:%d b:%d c:%d}", r.Intn(9), r.Intn(9), r.Intn(9))
	if r.Chance(0.3) {
		lit = "{a:[1 2] b:[3] c:[]}"
	}
	delKey := keys[r.Intn(3)]
	newKey := []string{"z", "k", "a", "d"}[r.Intn(4)]
	var b strings.Builder
	if r.Chance(0.3) {
		// the array of a variadic parameter outlives its call (returned, kept in a global, a map, an
		// any); later calls with other argument types, other depths and built-ins in between must not
		// show through it
		t1 := []string{"num", "string", "any", "bool"}[r.Intn(4)]
		lit := map[string][]string{"num": {"1", "2", "3"}, "string": {"\"a\"", "\"b\"", "\"c\""}, "any": {"1", "\"s\"", "true"}, "bool": {"true", "false", "true"}}
		other := map[string]string{"num": "\"x\" \"y\" \"z\" \"w\"", "string": "7 8 9 10", "any": "[1] {a:2} 3 4", "bool": "1 \"two\" 3 4"}
		fmt.Fprintf(&b, "held:[]%s\nbox := {k:0}\nwrapped:any\nfunc keep:[]%s v:%s...\n    return v\nend\nfunc stash v:%s...\n    held = v\n    wrapped = v\n    box.k = (len v)\nend\nfunc noise v:any...\n    print (len v)\nend\n", t1, t1, t1, t1)
		a := lit[t1]
		fmt.Fprintf(&b, "r1 := keep %s %s %s\nr2 := keep %s\nstash %s %s\n", a[0], a[1], a[2], a[1], a[2], a[0])
		fmt.Fprintf(&b, "noise %s\nprint (sprint %s) (sprintf \"%%v %%v\" %s)\nr3 := keep\nnoise (keep %s) %s\n", other[t1], other[t1], strings.Join(strings.Fields(other[t1])[:2], " "), a[0], other[t1])
		b.WriteString("print r1 r2 r3 held wrapped box (typeof r1) (typeof held) (typeof wrapped)\nfor e := range r1\n    w:any\n    w = e\n    print e (e == e) (typeof w)\nend\nfor e := range held\n    w:any\n    w = e\n    print e (typeof w)\nend\n")
		switch t1 {
		case "num":
			b.WriteString("print 1+r1[0] r1[1]+1 (held[0] * 2)\n")
		case "string":
			b.WriteString("print \"<\"+r1[0] r1[1]+\">\" (upper held[0])\n")
		case "bool":
			b.WriteString("print !r1[0] (r1[1] and held[0])\n")
		default:
			b.WriteString("print (typeof r1[0]) (typeof held[1]) (r1[0] == r1[0])\n")
		}
		b.WriteString("r1 = r1 + r2\nprint r1 (len r1)\nnoise r1 held\nprint r1 held\n")
		return b.String(), nil
	}
	if r.Chance(0.25) {
		// repetition copies nested composites: the copies and the original then go separate ways
		// (keys deleted from one, added to another, elements overwritten) and are all printed again
		k1, k2 := keys[r.Intn(3)], keys[r.Intn(3)]
		n := r.Range(1, 3)
		switch r.Intn(3) {
		case 0:
			fmt.Fprintf(&b, "arr := [%s] * %d\nprint arr\ndel arr[0] %q\nprint arr\ndel arr[%d] %q\narr[0].%s = 9\nprint arr (len arr[0]) (len arr[%d])\nfor m := range arr\n    print m (repr m) (sprint m)\n    for k := range m\n        print k m[k]\n    end\nend\n", lit, n+1, k1, n, k2, newKey, n)
		case 1:
			fmt.Fprintf(&b, "m := %s\narr := [m] * %d\ndel m %q\nm.%s = 4\nprint m arr\ndel arr[0] %q\nprint m arr (repr arr)\nm2 := arr[%d]\nm2.z = 1\ndel m2 \"a\"\nprint m arr m2\nfor k := range m\n    print k m[k]\nend\n", lit, n, k1, newKey, k2, n-1)
		default:
			fmt.Fprintf(&b, "rows := [[1 2] [3]] * %d\nrows[0][0] = 9\nrows[1] = rows[1] + [7]\nprint rows\nnested := [{j:{a:1 b:2 c:3} h:{d:4}}] * 2\ndel nested[0].j \"a\"\nnested[1].j.e = 5\ndel nested[1] \"h\"\ndel nested[1].j \"c\"\nnested[0].h.d = 0\nprint nested (repr nested)\ncells := [[{a:1 b:2 c:3}]] * 2\ndel cells[0][0] \"b\"\ndel cells[1][0] \"c\"\ncells[0][0].z = 1\nprint cells\nx:any\nx = nested[0]\nprint (typeof x) x\n", n+1)
		}
		return b.String(), nil
	}
	switch r.Intn(4) {
	case 0: // procedure
		fmt.Fprintf(&b, "func mk:{}any\n    return %s\nend\nm1 := mk\nm2 := mk\ndel m1 %q\nm1.%s = 7\nm3 := mk\nprint m1 m2 m3 (mk)\ndel m3 %q\nm3[%q] = 1\nprint m1 m2 m3 (len m1) (has m2 %q)\nfor k := range m2\n    print k m2[k]\nend\n", lit, delKey, newKey, keys[r.Intn(3)], newKey, delKey)
	case 1: // loop body
		fmt.Fprintf(&b, "keep:[]any\nfor i := range 4\n    m := %s\n    if i %% 2 == 0\n        del m %q\n        m.%s = i\n    end\n    keep = keep + [m]\n    print i m keep\nend\nprint keep\n", lit, delKey, newKey)
	case 2: // handler
		fmt.Fprintf(&b, "last:{}any\non key k:string\n    m := %s\n    print \"before\" last m\n    del m %q\n    m[k] = (len k)\n    last = m\n    print \"after\" last m\nend\n", lit, delKey)
		evs := []core.Event{{Name: "key", Str: []string{"x"}}, {Name: "key", Str: []string{newKey}}, {Name: "key", Str: []string{"a"}}, {Name: "key", Str: []string{""}}}
		return b.String(), evs
	default: // arrays: the same literal, elements overwritten and values concatenated
		fmt.Fprintf(&b, "func row:[]num\n    return [1 2 3]\nend\nr1 := row\nr2 := row\nr1[0] = 9\nr2 = r2 + [4]\nr3 := row\nprint r1 r2 r3 (row)\nfor i := range 3\n    a := [i i i]\n    a[i] = 100\n    b := a[1:]\n    b[0] = -1\n    print a b\nend\n")
	}
	return b.String(), nil
}

// nvVar is one variable of the near-valid prelude.
type nvVar struct{ name, ty, decl, use string }

var nvVars = []nvVar{
	{"n", "num", "n := 3", "print n+1 (n * 2) (n < 3)"},
	{"s", "string", "s := \"abc\"", "print s+\"!\" (len s) (upper s)"},
	{"b", "bool", "b := true", "print !b (b and true)"},
	{"an", "[]num", "an := [1 2 3]", "print an (len an) an+[1]\nfor e1 := range an\n    print e1+1\nend"},
	{"as", "[]string", "as := [\"p\" \"q\"]", "print as (join as \"-\")\nfor e2 := range as\n    print e2+\"!\"\nend"},
	{"mn", "{}num", "mn := {a:1 b:2}", "print mn (has mn \"a\")\nfor k3 := range mn\n    print mn[k3]+1\nend"},
	{"ms", "{}string", "ms := {a:\"x\"}", "for k4 := range ms\n    print ms[k4]+\"!\"\nend"},
	{"x", "any", "x:any\nx = 1", "print x (typeof x)"},
	{"ax", "[]any", "ax:[]any\nax = [1 \"s\"]", "print ax\nfor e5 := range ax\n    print (typeof e5) e5\nend"},
	{"mx", "{}any", "mx:{}any\nmx = {a:1 b:\"s\"}", "print mx\nfor k6 := range mx\n    print (typeof mx[k6])\nend"},
	{"aan", "[][]num", "aan := [[1] [2 3]]", "print aan\nfor r7 := range aan\n    for e7 := range r7\n        print e7+1\n    end\nend"},
	{"ws", "[]string", "ws := [\"ab\" \"cd\"]", "print ws ws[0][0] (ws[0] + ws[1])"},
	{"pm", "{}string", "pm := {name:\"ann\"}", "print pm pm.name[0] (pm.name + \"!\")"},
}

// NearValidCount is the number of distinct programs NearValid can build.
const NearValidCount = 2000

// NearValid builds program j of a systematic battery of programs that break ONE static rule
// of the language and are otherwise ordinary: a variable assigned a value of another type, an
// operator applied to operands it does not take, a call with an argument of the wrong type, a
// wrong return type, an assignment target that cannot be assigned to (a character of a string
// reached through an array or map, a slice, a call result), a non-num index, a non-bool
// condition, a type assertion on a non-any, a procedure used as a value ... The parser
// rejects them today; nothing of them runs. They are in the workload because a change that
// makes the parser a little more generous turns exactly such a program into an accepted one,
// and then it must still not go wrong: the statement is followed by code that uses every
// variable the way its static type allows.
func NearValid(j int) string {
	vs := nvVars
	pick := func(k int) nvVar { return vs[((k%len(vs))+len(vs))%len(vs)] }
	fam := j % 14
	k := j / 14
	a, c := pick(k), pick(k/len(vs)+k+1)
	var bad string
	switch fam {
	case 0: // assignment of another type
		if a.ty == c.ty || a.ty == "any" {
			c = pick(k + 2)
		}
		bad = fmt.Sprintf("%s = %s", a.name, c.name)
	case 1: // binary operator on operands it does not take
		op := []string{"+", "-", "*", "/", "%", "<", ">=", "and", "or", "=="}[k%10]
		bad = fmt.Sprintf("r1 := %s %s %s\nprint r1", a.name, op, c.name)
	case 2: // built-in with an argument of the wrong type
		fn := []string{"upper %s", "len %s 1", "str2num %s", "abs %s", "join %s \"-\"", "split %s \" \"", "has %s \"a\"", "del %s \"a\"", "move %s 1", "sleep %s", "index %s \"a\"", "floor %s", "startswith %s \"a\"", "rand %s", "text %s", "color %s", "sprintf %s 1", "exit %s", "panic %s", "min %s 1"}[k%20]
		bad = fmt.Sprintf("r2 := sprint (%s)\nprint r2", fmt.Sprintf(fn, a.name))
		if k%3 == 0 {
			bad = fmt.Sprintf(fn, a.name)
		}
	case 3: // user function: wrong argument type / count, wrong return type
		switch k % 4 {
		case 0:
			bad = fmt.Sprintf("func f1:num p:num\n    return p + 1\nend\nprint (f1 %s)", a.name)
		case 1:
			bad = fmt.Sprintf("func f2:%s\n    return %s\nend\nr3 := f2\nprint r3", a.ty, c.name)
		case 2:
			bad = fmt.Sprintf("func f3 p:%s\n    print p\n    return %s\nend\nf3 %s", a.ty, c.name, a.name)
		default:
			bad = fmt.Sprintf("func f4:num p:num q:num\n    return p + q\nend\nprint (f4 %s) (f4 1 2 %s)", a.name, c.name)
		}
	case 4: // assignment targets that cannot be assigned to
		t := []string{"ws[0][0] = \"x\"", "pm.name[0] = \"x\"", "pm[\"name\"][1] = \"x\"", "s[0] = \"x\"", "ws[1][-1] = \"x\"", "an[0:1] = [9]", "s[0:1] = \"x\"", "ws[0][0:1] = \"x\"",
			"aan[0][0][0] = 1", "n[0] = 1", "b.k = true", "mn.a.b = 1", "mn[0] = 1", "an[\"a\"] = 1", "an.a = 1", "(len s) = 3", "x[0] = 1", "x.k = 1", "ax[0][0] = 1", "mx.a.b = 1",
			"as[0][0] = \"x\"", "ms.a[0] = \"x\"", "ms[\"a\"][0] = \"y\"", "[1 2][0] = 3", "\"abc\"[0] = \"x\"", "ws[0] [0] = \"x\""}[k%26]
		bad = t
	case 5: // index, slice and field expressions that do not type
		t := []string{"an[s]", "an[b]", "mn[n]", "mn[an]", "an.a", "s.a", "n[0]", "b[0]", "x[0]", "x.a", "mn[0:1]", "n[0:1]", "an[s:]", "an[:b]", "s[as]", "ax[0][0]", "mx.a.b", "aan[0][0][0]", "ws[0][0][0][0].k", "pm.name.first"}[k%20]
		bad = fmt.Sprintf("r5 := %s\nprint r5", t)
	case 6: // conditions and ranges
		t := []string{"if %s\n    print 1\nend", "while %s\n    print 1\n    break\nend", "for i1 := range %s\n    print i1\nend", "for i2 := range 1 %s\n    print i2\nend", "for i3 := range 1 5 %s\n    print i3\nend", "if true\n    print 1\nelse if %s\n    print 2\nend"}[k%6]
		v := a
		if k%6 < 2 || k%6 == 5 {
			if v.ty == "bool" {
				v = c
			}
		} else if k%6 == 2 {
			v = []nvVar{pick(2), pick(7)}[k%2] // range over a bool or an any
		} else if v.ty == "num" {
			v = c
		}
		bad = fmt.Sprintf(t, v.name)
	case 7: // type assertions
		t := []string{"n.(num)", "s.(string)", "an.([]num)", "x.(any)", "ax.([]num)", "mx.({}num)", "ax[0].(any)", "x.(num).(num)", "mn.a.(num)", "x.(nums)"}[k%10]
		bad = fmt.Sprintf("r7 := %s\nprint r7", t)
	case 8: // procedures and nothing used as values
		t := []string{"r8 := cls\nprint r8", "r8 := (print 1)\nprint r8", "print (cls)", "r8 := [1 (cls)]\nprint r8 (len r8)", "r8 := {a:(cls)}\nprint r8", "an = an + [(clear)]", "x = (sleep 0)", "func p0\n    print 0\nend\nr8 := p0\nprint r8", "func p1\n    print 0\nend\nx = (p1)", "n = n + (p2)\nfunc p2\n    print 0\nend",
			"r8 := [(print 1)]\nprint r8", "print [(cls)] {a:(clear)}", "func p3\n    print 0\nend\nr8 := [(p3) (p3)]\nprint r8 (typeof r8)", "r8 := [[(cls)]]\nprint r8", "ax = [1 (cls)]", "mx = {a:(print 1)}", "for e8 := range [(cls)]\n    print e8\nend", "print (len [(cls)]) (typeof {a:(cls)})",
			"func p4\n    return\nend\nb = (p4) == (p4)", "b = (cls) == (cls)", "if (print 1) != (print 2)\n    print 3\nend", "func p5\n    print 0\nend\nwhile (p5) == (p5)\n    break\nend", "print ((clear) == (cls)) ((p6) != (p6))\nfunc p6\n    return\nend"}[k%23]
		bad = t
	case 9: // unary operators
		bad = fmt.Sprintf("r9 := %s%s\nprint r9", []string{"-", "!"}[k%2], []string{"s", "b", "an", "mn", "x", "n", "as", "ax"}[(k/2)%8])
		if k%4 == 3 {
			bad = fmt.Sprintf("r9 := %s(%s)\nprint r9", []string{"-", "!"}[(k/4)%2], a.name)
		}
	case 10: // composite literals for a typed target
		t := []string{"an = [1 \"a\"]", "an = as", "as = [s n]", "mn = {a:\"s\"}", "mn = ms", "ax = an", "mx = mn", "aan = [an as]", "aan = [[1] [\"a\"]]", "ax = [an][0]", "mx = [mn][0]", "ax = an[:1]", "ax = an + an", "an = ax", "mn = mx", "aan = [ax]", "ax = aan", "an = [x]", "mn = {a:x}", "as = ax"}[k%20]
		bad = t
	case 11: // declarations
		t := []string{"n := 4", "n:string", "q1:num\nq1:string\nprint q1", "q2 := q2\nprint q2", "q3 := [q3]\nprint q3", "q4:nums\nprint q4", "q5:[]\nprint q5", "q6:{}\nprint q6", "q7 := {a:1 a:2}\nprint q7", "func n\n    print 1\nend", "func g1 p:num p:string\n    print p\nend\ng1 1 \"a\"", "on key\n    print 1\nend\non key\n    print 2\nend", "on key k:num\n    print k\nend", "on down x1:num\n    print x1\nend", "on nosuch\n    print 1\nend", "print q8\nq8 := 1", "if true\n    q9 := 1\n    print q9\nend\nprint q9", "for q10 := range 2\n    print q10\nend\nprint q10", "func g2\n    print q11\nend\ng2\nif true\n    q11 := 1\n    print q11\nend", "_ := 1",
			// the predefined globals err, errmsg and pi as names of parameters, locals and loop variables
			"func g3 err:num\n    print err\n    n = str2num \"1x\"\n    print err n\nend\ng3 1", "for errmsg := range 3\n    n = str2num \"1x\"\n    print errmsg n\nend", "if true\n    err := \"s\"\n    b = str2bool \"maybe\"\n    print err b\nend",
			"func g4 pi:string\n    print pi\nend\ng4 \"3\"", "on key err:string\n    n = str2num err\n    print n err\nend", "func g5:num errmsg:[]num\n    return (str2num \"x\") + errmsg[0]\nend\nprint (g5 [1])", "while true\n    errmsg := 5\n    n = str2num \"\"\n    print errmsg\n    break\nend",
			"err := true", "errmsg := 5", "pi := 3", "func err\n    print 1\nend", "err = 1\nprint err", "errmsg = true\nprint errmsg"}[k%33]
		bad = t
	case 12: // control flow
		t := []string{"break", "return", "return 1", "func h1:num\n    print 1\nend\nprint (h1)", "func h2:num\n    if true\n        return 1\n    end\nend\nprint (h2)", "func h3\n    return 1\nend\nh3", "on key\n    return 1\nend", "while true\n    break\n    print 1\nend", "func h4:num\n    return 1\n    print 2\nend\nprint (h4)", "if true\n    break\nend", "func h5:num\n    while true\n        return 1\n    end\nend\nprint (h5)", "func h6:num\n    for range 3\n        return 1\n    end\nend\nprint (h6)"}[k%12]
		bad = t
	default: // variadic and any parameters
		t := []string{"func v1 p:num...\n    print p\nend\nv1 1 \"a\"", "func v2 p:num...\n    print p\nend\nv2 an", "func v3 p:any...\n    print p\nend\nv3 (cls)", "func v4:num p:num...\n    return p\nend\nprint (v4 1)", "func v5 p:[]any\n    print p\nend\nv5 an", "func v6 p:{}any\n    print p\nend\nv6 mn", "func v7 p:any\n    print p+1\nend\nv7 1", "func v8 p:num... q:num\n    print p q\nend\nv8 1 2", "print (typeof)", "print (typeof 1 2)", "print (len)", "func v9 p:[]num...\n    for e9 := range p\n        print e9[0]+1\n    end\nend\nv9 an ax"}[k%12]
		bad = t
	}
	var b strings.Builder
	for _, v := range vs {
		b.WriteString(v.decl + "\n")
	}
	b.WriteString(bad + "\n")
	for _, v := range vs {
		b.WriteString(v.use + "\n")
	}
	return b.String()
}

// Formats builds a program that hands the printf family format strings of every shape - complete,
// incomplete (a % followed only by flags, width or precision), unknown verbs, indexed and starred
// arguments, a lone % at the end - with fewer, exactly enough and more arguments than verbs, from
// literals and from input.
func Formats(r *prng.R) (string, []string) {
	fs := []string{"%5", "%-", "%.2", "% ", "50% 0", "%", "100%", "%%", "%[2]v", "%[9]v", "%*v", "%!", "%v %", "%5.", "%+", "%#", "%0", "%v%", "%v %-", "%08.3f", "%-8s|", "%q", "%x", "%c", "%U", "%t",
		"%e", "%g", "%b", "%o", "%p", "%T", "%d %d %d", "%s", "", "no verbs", "%v %v", "%.f", "%.", "%1", "%10", "%-10", "%+.", "% d", "%#x", "%5%", "%z", "%é", "%\\n", "a%5"}
	args := []string{"", "1", "1 2", "\"s\"", "true 2.5", "[1 2]", "{a:1}", "1 \"s\" true [1]", "(0/0)", "\"é\" 65"}
	var b strings.Builder
	var inputs []string
	b.WriteString("x:any\nx = 7\n")
	for i := r.Range(3, 7); i > 0; i-- {
		f, a := fs[r.Intn(len(fs))], args[r.Intn(len(args))]
		switch r.Intn(5) {
		case 0:
			fmt.Fprintf(&b, "printf %q %s\n", f, a)
		case 1:
			fmt.Fprintf(&b, "print (sprintf %q %s) \"|\"\n", f, a)
		case 2:
			fmt.Fprintf(&b, "f%d := read\nprintf f%d %s\nprint (len (sprintf f%d x %s))\n", i, i, a, i, a)
			inputs = append(inputs, f)
		case 3:
			fmt.Fprintf(&b, "test 1 1 %q %s\ntest 1 2 %q %s\n", f, a, f, a)
		default:
			fmt.Fprintf(&b, "s%d := sprintf (%q + %q) %s x\nprint s%d (len s%d)\n", i, f, fs[r.Intn(len(fs))], a, i, i)
		}
	}
	b.WriteString("print \"end\" x\n")
	return b.String(), inputs
}
