package core

import (
	"encoding/json"
	"fmt"
	"os"
	"os/exec"
	"path/filepath"
	"sort"
	"strconv"
	"strings"
	"time"

	"evylang.dev/evy/vsim/prng"
)

// Violation is what a failed oracle reports.
type Violation struct {
	Oracle    string // e.g. O2-effect-after-stop
	Signature string // stable identity used for dedup and known-findings
	Expected  string
	Observed  map[string]any
	Match     map[string]string // keys compared against known_findings.json "match"
}

// Driver is one property's workload + oracle.
type Driver interface {
	Property() string
	Level() string // evidence level
	// Count returns the number of work items for a tier.
	Count(tier string) int
	// Regen rebuilds the base scenario of item idx.
	Regen(idx int, ctx *Ctx) *Scenario
	// RunItem generates item idx and checks it, recording into ctx.
	RunItem(idx int, ctx *Ctx)
	// Check re-executes one explicit scenario; nil = property held.
	Check(sc *Scenario) *Violation
	// Describe fills evidence fields that are property specific.
	Describe(ev *Evidence, st *Stats)
}

// Stats is what a worker accumulates.
type Stats struct {
	Counters    map[string]int64  `json:"counters"`
	Hashes      []uint64          `json:"hashes"`       // distinct non-trivial cases
	SchedHashes []uint64          `json:"sched_hashes"` // distinct schedules / interleavings
	Samples     []json.RawMessage `json:"samples"`
	Violations  []*Scenario       `json:"violations"`
	Notes       []string          `json:"notes"`
	hset, sset  map[uint64]struct{}
}

// Ctx is handed to RunItem.
type Ctx struct {
	Seed          uint64
	Tier          string
	Corpus        string
	St            *Stats
	MaxViolations int
}

// Inc bumps a counter.
func (c *Ctx) Inc(name string, by int64) { c.St.Counters[name] += by }

// Distinct records a distinct non-trivial case.
func (c *Ctx) Distinct(h uint64) {
	if _, ok := c.St.hset[h]; !ok {
		c.St.hset[h] = struct{}{}
	}
}

// Sched records a distinct schedule / interleaving signature.
func (c *Ctx) Sched(h uint64) {
	if _, ok := c.St.sset[h]; !ok {
		c.St.sset[h] = struct{}{}
	}
}

// Sample keeps up to n sample cases.
func (c *Ctx) Sample(v any, n int) {
	if len(c.St.Samples) >= n {
		return
	}
	b, err := json.Marshal(v)
	if err == nil {
		c.St.Samples = append(c.St.Samples, b)
	}
}

// Violate records a violating scenario.
func (c *Ctx) Violate(sc *Scenario, v *Violation) {
	c.Inc("violations_raw", 1)
	if len(c.St.Violations) >= c.MaxViolations {
		return
	}
	for _, o := range c.St.Violations {
		if o.Signature == v.Signature {
			return // one per signature per worker is enough
		}
	}
	s := sc.Clone()
	s.Oracle = v.Oracle
	s.Signature = v.Signature
	s.Expected = v.Expected
	s.Observed = v.Observed
	if s.Observed == nil {
		s.Observed = map[string]any{}
	}
	if v.Match != nil {
		s.Observed["match"] = v.Match
	}
	c.St.Violations = append(c.St.Violations, s)
}

func newStats() *Stats {
	return &Stats{Counters: map[string]int64{}, hset: map[uint64]struct{}{}, sset: map[uint64]struct{}{}}
}

func (s *Stats) seal() {
	s.Hashes = s.Hashes[:0]
	for h := range s.hset { // set → sorted slice: order cannot leak
		s.Hashes = append(s.Hashes, h)
	}
	sort.Slice(s.Hashes, func(i, j int) bool { return s.Hashes[i] < s.Hashes[j] })
	s.SchedHashes = s.SchedHashes[:0]
	for h := range s.sset {
		s.SchedHashes = append(s.SchedHashes, h)
	}
	sort.Slice(s.SchedHashes, func(i, j int) bool { return s.SchedHashes[i] < s.SchedHashes[j] })
}

func (s *Stats) merge(o *Stats) {
	for k, v := range o.Counters { // commutative sum
		s.Counters[k] += v
	}
	for _, h := range o.Hashes {
		s.hset[h] = struct{}{}
	}
	for _, h := range o.SchedHashes {
		s.sset[h] = struct{}{}
	}
	for _, smp := range o.Samples {
		if len(s.Samples) < 3 {
			s.Samples = append(s.Samples, smp)
		}
	}
	s.Violations = append(s.Violations, o.Violations...)
	s.Notes = append(s.Notes, o.Notes...)
}

// Evidence mirrors EVIDENCE.schema.json.
type Evidence struct {
	PropertyID  string         `json:"property_id"`
	Tier        string         `json:"tier"`
	Seed        int64          `json:"seed"`
	Level       string         `json:"level"`
	Coverage    map[string]any `json:"coverage"`
	Assumptions []string       `json:"assumptions"`
	WallS       float64        `json:"wall_s"`
	Violations  int            `json:"violations"`
}

// Args are the driver binary's command-line parameters.
type Args struct {
	Prop     string
	Tier     string
	Seed     uint64
	Workers  int
	Worker   int    // -1 = parent
	OutDir   string // scratch dir for worker outputs
	Evidence string
	Replays  string
	Known    string
	Corpus   string
	Replay   string
	Minimise string
	MinOut   string
	Tree     string
	Limit    int    // override item count (tests)
	Skip     string // comma separated item indices a respawned worker must skip
	Scratch  string
}

// WorkerMain runs the items of one worker and writes its stats file.
func WorkerMain(d Driver, a *Args) int {
	st := newStats()
	ctx := &Ctx{Seed: a.Seed, Tier: a.Tier, Corpus: a.Corpus, St: st, MaxViolations: 4}
	n := d.Count(a.Tier)
	if a.Limit > 0 && a.Limit < n {
		n = a.Limit
	}
	progress := filepath.Join(a.OutDir, fmt.Sprintf("w%d.progress", a.Worker))
	pf, _ := os.Create(progress)
	skip := map[int]bool{}
	for _, f := range strings.Split(a.Skip, ",") {
		if v, err := strconv.Atoi(f); err == nil {
			skip[v] = true
		}
	}
	for idx := a.Worker; idx < n; idx += a.Workers {
		if skip[idx] {
			ctx.Inc("items_skipped_resource_exhaustion", 1)
			continue
		}
		if pf != nil {
			// which item is in flight: if this process dies, the parent knows where
			pf.WriteAt([]byte(fmt.Sprintf("%-12d %-12d", idx, 0)), 0) //nolint:errcheck
			beatFile, beatItem = pf, idx
		}
		d.RunItem(idx, ctx)
		ctx.Inc("items", 1)
	}
	if c, ok := d.(interface{ Cleanup() }); ok {
		c.Cleanup()
	}
	if pf != nil {
		pf.WriteAt([]byte(fmt.Sprintf("%-12s", "done")), 0) //nolint:errcheck
		pf.Close()                                          //nolint:errcheck
	}
	st.seal()
	b, err := json.Marshal(st)
	if err != nil {
		fmt.Fprintln(os.Stderr, "worker: marshal:", err)
		return 2
	}
	if err := os.WriteFile(filepath.Join(a.OutDir, fmt.Sprintf("w%d.json", a.Worker)), b, 0o644); err != nil {
		fmt.Fprintln(os.Stderr, "worker:", err)
		return 2
	}
	return 0
}

// KnownFinding is one entry of known_findings.json.
type KnownFinding struct {
	Property string            `json:"property"`
	Status   string            `json:"status"` // known | fixed
	Title    string            `json:"title"`
	Commit   string            `json:"commit,omitempty"`
	Match    map[string]string `json:"match,omitempty"`
	Example  json.RawMessage   `json:"example,omitempty"`
}

func loadKnown(path string) []KnownFinding {
	b, err := os.ReadFile(path)
	if err != nil {
		return nil
	}
	var k []KnownFinding
	if err := json.Unmarshal(b, &k); err != nil {
		fmt.Fprintf(os.Stderr, "check: %s: %v\n", path, err)
		os.Exit(2)
	}
	return k
}

func matchKnown(known []KnownFinding, prop string, sc *Scenario) *KnownFinding {
	m, _ := sc.Observed["match"].(map[string]string)
	if m == nil {
		if mm, ok := sc.Observed["match"].(map[string]any); ok {
			m = map[string]string{}
			for k, v := range mm { // map → map copy, order irrelevant
				m[k] = fmt.Sprint(v)
			}
		}
	}
	for i := range known {
		k := &known[i]
		if k.Property != prop || k.Status != "known" || len(k.Match) == 0 {
			continue
		}
		ok := true
		for key, want := range k.Match { // all keys must match, order irrelevant
			if m == nil || m[key] != want {
				ok = false
				break
			}
		}
		if ok {
			return k
		}
	}
	return nil
}

// ParentMain spawns workers, merges, minimises, writes evidence and replay files.
func ParentMain(d Driver, a *Args) int {
	start := time.Now()
	self, err := os.Executable()
	if err != nil {
		fmt.Fprintln(os.Stderr, "check:", err)
		return 2
	}
	if err := os.MkdirAll(a.OutDir, 0o755); err != nil {
		fmt.Fprintln(os.Stderr, "check:", err)
		return 2
	}
	n := d.Count(a.Tier)
	if a.Limit > 0 && a.Limit < n {
		n = a.Limit
	}
	workers := a.Workers
	if workers > n {
		workers = n
	}
	if workers < 1 {
		workers = 1
	}
	type wres struct {
		i   int
		err error
		out []byte
	}
	ch := make(chan wres, workers)
	for i := 0; i < workers; i++ {
		go func(i int) {
			skip := ""
			for attempt := 0; ; attempt++ {
				cmd := exec.Command(self, "-prop", a.Prop, "-tier", a.Tier, "-seed", strconv.FormatUint(a.Seed, 10),
					"-workers", strconv.Itoa(workers), "-worker", strconv.Itoa(i), "-outdir", a.OutDir,
					"-corpus", a.Corpus, "-limit", strconv.Itoa(a.Limit), "-scratch", a.Scratch, "-skip", skip)
				cmd.Env = append(os.Environ(), "GOMAXPROCS=1")
				progress := filepath.Join(a.OutDir, fmt.Sprintf("w%d.progress", i))
				out, err := runWithWatchdog(cmd, progress)
				if err != nil && err != errWatchdog && attempt < 4 &&
					(strings.Contains(string(out), "out of memory") || strings.Contains(string(out), "cannot allocate memory")) {
					// resource exhaustion inside the fence (ulimit -v) is not a verdict about
					// the property: run this worker's slice again without the item in flight
					pb, _ := os.ReadFile(progress)
					if f := strings.Fields(string(pb)); len(f) > 0 {
						fmt.Fprintf(os.Stderr, "check: worker %d ran out of memory at item %s (resource fence); item skipped, slice re-run\n", i, f[0])
						skip += f[0] + ","
						continue
					}
				}
				ch <- wres{i, err, out}
				return
			}
		}(i)
	}
	total := newStats()
	trouble := false
	for i := 0; i < workers; i++ {
		r := <-ch
		b, rerr := os.ReadFile(filepath.Join(a.OutDir, fmt.Sprintf("w%d.json", r.i)))
		if r.err != nil || rerr != nil {
			// the worker died: that is an outcome of the item it was running
			pb, _ := os.ReadFile(filepath.Join(a.OutDir, fmt.Sprintf("w%d.progress", r.i)))
			item := strings.TrimSpace(string(pb))
			if f := strings.Fields(item); len(f) > 0 {
				item = f[0]
			}
			if r.err == errWatchdog {
				fmt.Fprintf(os.Stderr, "check: watchdog: worker %d made no progress for %v at item %s\n", r.i, watchdogLimit, item)
				trouble = true
				continue
			}
			tail := string(r.out)
			if strings.Contains(tail, "out of memory") || strings.Contains(tail, "cannot allocate memory") {
				// resource exhaustion inside the fence (ulimit -v) is infrastructure trouble, not a verdict
				fmt.Fprintf(os.Stderr, "check: worker %d ran out of memory at item %s (resource fence); not a verdict\n", r.i, item)
				trouble = true
				continue
			}
			if len(tail) > 1500 {
				tail = tail[:700] + "\n...\n" + tail[len(tail)-700:]
			}
			sc := &Scenario{Property: a.Prop, Seed: a.Seed, Tier: a.Tier, Kind: "host-fatal", ReplayExact: true}
			if idx, perr := strconv.Atoi(item); perr == nil {
				sc.Index = idx
			}
			sc.Oracle = "host-fatal"
			sc.Signature = "host-fatal"
			sc.Expected = "the process running the evaluator survives"
			sc.Observed = map[string]any{"worker_exit": fmt.Sprint(r.err), "item": item, "stderr_tail": tail,
				"match": map[string]string{"outcome": "host-fatal"}}
			total.Violations = append(total.Violations, sc)
			total.Counters["worker_died"]++
			continue
		}
		var st Stats
		if err := json.Unmarshal(b, &st); err != nil {
			fmt.Fprintf(os.Stderr, "check: worker %d output: %v\n", r.i, err)
			trouble = true
			continue
		}
		total.merge(&st)
	}
	total.seal()

	// violations: dedupe by signature, known findings, minimise, save
	known := loadKnown(a.Known)
	sort.SliceStable(total.Violations, func(i, j int) bool {
		if total.Violations[i].Signature != total.Violations[j].Signature {
			return total.Violations[i].Signature < total.Violations[j].Signature
		}
		return total.Violations[i].Index < total.Violations[j].Index
	})
	seen := map[string]bool{}
	nViol := 0
	var knownLines []string
	var violLines []string
	for _, sc := range total.Violations {
		if seen[sc.Signature] {
			continue
		}
		seen[sc.Signature] = true
		sc.Tree = a.Tree
		sc.Tier = a.Tier
		if sc.Kind == "host-fatal" {
			// regenerate the scenario of the item that killed the worker, in a child
			if full := regenerate(self, a, sc.Index); full != nil {
				full.Oracle, full.Signature, full.Expected, full.Observed = sc.Oracle, sc.Signature, sc.Expected, sc.Observed
				full.Kind = "host-fatal"
				sc = full
				sc.Tree, sc.Tier = a.Tree, a.Tier
			}
		}
		if k := matchKnown(known, a.Prop, sc); k != nil {
			knownLines = append(knownLines, fmt.Sprintf("KNOWN-FINDING: property=%s %s", a.Prop, k.Title))
			continue
		}
		if nViol < 6 {
			if m := minimiseInChild(self, a, sc); m != nil {
				sc = m
				sc.Tree, sc.Tier = a.Tree, a.Tier
				if k := matchKnown(known, a.Prop, sc); k != nil {
					knownLines = append(knownLines, fmt.Sprintf("KNOWN-FINDING: property=%s %s", a.Prop, k.Title))
					continue
				}
			}
		}
		hkey := fmt.Sprintf("hash:%016x", sc.Hash())
		if seen[hkey] {
			continue // minimised to a scenario already reported
		}
		seen[hkey] = true
		nViol++
		_ = os.MkdirAll(a.Replays, 0o755)
		path := filepath.Join(a.Replays, fmt.Sprintf("%s-%d-%016x.json", a.Prop, a.Seed, sc.Hash()))
		if err := sc.Save(path); err != nil {
			fmt.Fprintln(os.Stderr, "check:", err)
			return 2
		}
		violLines = append(violLines, fmt.Sprintf("VIOLATION property=%s replay=%s", a.Prop, path))
		fmt.Fprintf(os.Stderr, "  oracle=%s signature=%s\n  expected: %s\n", sc.Oracle, sc.Signature, sc.Expected)
	}
	sort.Strings(knownLines)
	knownLines = uniq(knownLines)
	for _, l := range knownLines {
		fmt.Println(l)
	}
	for _, l := range violLines {
		fmt.Println(l)
	}

	if dump := os.Getenv("VERIF_DUMP"); dump != "" {
		// determinism self-test: everything the run computed, nothing that depends on wall time
		b, _ := json.Marshal(map[string]any{"counters": total.Counters, "hashes": total.Hashes, "sched": total.SchedHashes, "violations": violLines, "known": knownLines})
		os.WriteFile(dump, b, 0o644) //nolint:errcheck
	}
	wall := time.Since(start).Seconds()
	ev := &Evidence{PropertyID: a.Prop, Tier: a.Tier, Seed: int64(a.Seed), Level: d.Level(), WallS: wall, Violations: nViol,
		Coverage: map[string]any{}}
	cov := ev.Coverage
	cov["evaluations"] = total.Counters["evaluations"]
	cov["distinct_nontrivial"] = len(total.Hashes)
	cov["distinct_schedules"] = len(total.SchedHashes)
	samples := make([]any, 0, len(total.Samples))
	for _, s := range total.Samples {
		var v any
		if json.Unmarshal(s, &v) == nil {
			samples = append(samples, v)
		}
	}
	cov["samples"] = samples
	counters := map[string]int64{}
	for k, v := range total.Counters { // copied into a map that json sorts
		counters[k] = v
	}
	cov["counters"] = counters
	if wall > 0 {
		cov["runs_per_hour"] = int64(float64(total.Counters["evaluations"]) / wall * 3600)
	}
	cov["seeds"] = 1
	cov["workers"] = workers
	cov["items"] = total.Counters["items"]
	if knownLines == nil {
		knownLines = []string{}
	}
	cov["known_findings"] = knownLines
	notes := uniq(total.Notes)
	if notes == nil {
		notes = []string{}
	}
	if n := total.Counters["items_skipped_resource_exhaustion"]; n > 0 {
		notes = append(notes, fmt.Sprintf("%d item(s) skipped after a worker ran out of memory inside the resource fence", n))
	}
	cov["notes"] = notes
	cov["seed_used"] = a.Seed
	cov["tree"] = a.Tree
	d.Describe(ev, total)
	if err := os.MkdirAll(filepath.Dir(a.Evidence), 0o755); err == nil {
		b, _ := json.MarshalIndent(ev, "", " ")
		if err := os.WriteFile(a.Evidence, append(b, '\n'), 0o644); err != nil {
			fmt.Fprintln(os.Stderr, "check:", err)
			return 2
		}
	}
	fmt.Fprintf(os.Stderr, "check: %s %s seed=%d items=%d evaluations=%d distinct=%d violations=%d known=%d wall=%.1fs\n",
		a.Prop, a.Tier, a.Seed, total.Counters["items"], total.Counters["evaluations"], len(total.Hashes), nViol, len(knownLines), wall)
	if nViol > 0 {
		return 1
	}
	if trouble {
		return 2 // watchdog / worker-output trouble and nothing else to report
	}
	return 0
}

func uniq(s []string) []string {
	sort.Strings(s)
	out := s[:0]
	for i, x := range s {
		if i == 0 || x != s[i-1] {
			out = append(out, x)
		}
	}
	return out
}

var (
	beatFile *os.File
	beatN    uint64
	beatLast time.Time
	beatItem int
)

// Heartbeat tells the parent's watchdog that the worker is alive inside a long
// item. It only touches the progress file (wall clock is used for nothing else).
func Heartbeat() {
	beatN++
	if beatFile == nil || beatN%64 != 0 {
		return
	}
	if now := time.Now(); now.Sub(beatLast) > 500*time.Millisecond {
		beatLast = now
		beatFile.WriteAt([]byte(fmt.Sprintf("%-12d %-12d", beatItem, beatN)), 0) //nolint:errcheck
	}
}

// HeartbeatNow is Heartbeat for callers whose single steps are slow (file system, processes).
func HeartbeatNow() {
	beatN++
	if beatFile == nil {
		return
	}
	if now := time.Now(); now.Sub(beatLast) > 500*time.Millisecond {
		beatLast = now
		beatFile.WriteAt([]byte(fmt.Sprintf("%-12d %-12d", beatItem, beatN)), 0) //nolint:errcheck
	}
}

// ScratchDir is the check's scratch directory (plain copy of the tree, binaries).
var ScratchDir string

var errWatchdog = fmt.Errorf("watchdog")

const watchdogLimit = 180 * time.Second

// runWithWatchdog kills a worker that makes no progress for watchdogLimit.
func runWithWatchdog(cmd *exec.Cmd, progress string) ([]byte, error) {
	var out strings.Builder
	cmd.Stdout = &out
	cmd.Stderr = &out
	if err := cmd.Start(); err != nil {
		return nil, err
	}
	done := make(chan error, 1)
	go func() { done <- cmd.Wait() }()
	last := ""
	lastChange := time.Now()
	tick := time.NewTicker(2 * time.Second)
	defer tick.Stop()
	for {
		select {
		case err := <-done:
			return []byte(out.String()), err
		case <-tick.C:
			b, _ := os.ReadFile(progress)
			if s := string(b); s != last {
				last = s
				lastChange = time.Now()
			} else if time.Since(lastChange) > watchdogLimit {
				cmd.Process.Kill() //nolint:errcheck
				<-done
				return []byte(out.String()), errWatchdog
			}
		}
	}
}

func minimiseInChild(self string, a *Args, sc *Scenario) *Scenario {
	in := filepath.Join(a.OutDir, fmt.Sprintf("min-in-%016x.json", sc.Hash()))
	out := filepath.Join(a.OutDir, fmt.Sprintf("min-out-%016x.json", sc.Hash()))
	if err := sc.Save(in); err != nil {
		return nil
	}
	cmd := exec.Command(self, "-prop", a.Prop, "-tier", a.Tier, "-minimise", in, "-minout", out, "-corpus", a.Corpus, "-scratch", a.Scratch)
	cmd.Env = append(os.Environ(), "GOMAXPROCS=1")
	done := make(chan error, 1)
	if err := cmd.Start(); err != nil {
		return nil
	}
	go func() { done <- cmd.Wait() }()
	select {
	case err := <-done:
		if err != nil {
			return nil
		}
	case <-time.After(120 * time.Second):
		cmd.Process.Kill() //nolint:errcheck
		<-done
	}
	m, err := Load(out)
	if err != nil {
		return nil
	}
	return m
}

func regenerate(self string, a *Args, idx int) *Scenario {
	out := filepath.Join(a.OutDir, fmt.Sprintf("regen-%d.json", idx))
	cmd := exec.Command(self, "-prop", a.Prop, "-tier", a.Tier, "-seed", strconv.FormatUint(a.Seed, 10), "-regen", strconv.Itoa(idx), "-minout", out, "-corpus", a.Corpus, "-scratch", a.Scratch)
	if err := cmd.Run(); err != nil {
		return nil
	}
	m, err := Load(out)
	if err != nil {
		return nil
	}
	return m
}

// ItemRNG derives the stream of one work item.
func ItemRNG(seed uint64, prop string, idx int) *prng.R {
	return prng.Derive(seed, prng.HashString(prop), uint64(idx))
}
