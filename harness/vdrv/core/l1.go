package core

import (
	"errors"
	"fmt"
	"math/rand"
	"runtime"
	"strings"

	"evylang.dev/evy/pkg/evaluator"
	"evylang.dev/evy/pkg/parser"
	"evylang.dev/evy/vdrv/plat"
	"evylang.dev/evy/vsim/maporder"
	"evylang.dev/evy/vsim/prng"
	"evylang.dev/evy/vsim/simrand"
	"evylang.dev/evy/vsim/simtime"
)

// End classes (Appendix A of DESIGN.md).
const (
	EndOK          = "ok"
	EndPanic       = "panic"
	EndExit        = "exit"
	EndTestFailed  = "test-failed"
	EndStopped     = "stopped"
	EndParseError  = "parse-error"
	EndParserCrash = "parser-crash"
	EndInternal    = "internal"
	EndHostPanic   = "host-panic"
	EndOther       = "other-error"
)

// Result is what one simulated run produced.
type Result struct {
	P                   *plat.Sim
	EndClass            string
	EndMsg              string
	ParseErr            string // parser.Errors text, or recovered parser panic
	Formatted           string
	FormatRepeatDiffers bool
	Accepted            bool
	HostPanic           string // recovered Go panic value
	TopFrame            string // first evy frame of the panic stack
	EvalEnd             string // class after Eval only (before events)
	EventsDone          int
	EventErrs           []string
	MapDigest           uint64
	MapDecisions        int
	Stage               string // where the run ended: parse|eval|event:<n>
	TypeMon             string // first run-time type mismatch seen by the monitor inside eval (kind|static type|what the value is|where)
	TypeMonChecks       int64
	TestsCompleted      int    // calls of the test built-in that ran to their end (-1: monitor unavailable)
	TestsCounted        int    // what the evaluator's TestInfo says
	StopMon             string // first node that was evaluated to the end although the stop flag was up when it was entered
}

// Trace renders the effect trace plus terminal line.
func (r *Result) Trace() string {
	var b strings.Builder
	if r.P != nil {
		for i, e := range r.P.Effects {
			fmt.Fprintf(&b, "%d %s\n", i, e)
		}
	}
	fmt.Fprintf(&b, "end %s %s\n", r.EndClass, r.EndMsg)
	return b.String()
}

// TraceDigest hashes Trace().
func (r *Result) TraceDigest() uint64 { return prng.HashString(r.Trace()) }

// Classify maps an evaluator error to an end class. raised says whether the
// simulator raised the stop flag (ErrStopped without it is not an allowed outcome).
func Classify(err error) (class, msg string) {
	if err == nil {
		return EndOK, ""
	}
	msg = err.Error()
	var exitErr evaluator.ExitError
	switch {
	case errors.Is(err, evaluator.ErrInternal):
		return EndInternal, msg
	case errors.Is(err, evaluator.ErrStopped):
		return EndStopped, msg
	case errors.As(err, &exitErr):
		return fmt.Sprintf("%s:%d", EndExit, int(exitErr)), msg
	case errors.Is(err, evaluator.ErrTest):
		return EndTestFailed, msg
	case errors.Is(err, evaluator.ErrPanic):
		return EndPanic, msg
	}
	var te evaluator.TestErrors
	if errors.As(err, &te) {
		return EndTestFailed, msg
	}
	return EndOther, msg
}

// TopEvyFrame extracts the first stack frame inside evylang.dev/evy/pkg.
func TopEvyFrame() string {
	pcs := make([]uintptr, 64)
	n := runtime.Callers(0, pcs)
	frames := runtime.CallersFrames(pcs[:n])
	for {
		f, more := frames.Next()
		if strings.Contains(f.Function, "evylang.dev/evy/pkg/") || strings.HasPrefix(f.Function, "evylang.dev/evy.") {
			fn := f.Function
			fn = strings.TrimPrefix(fn, "evylang.dev/evy/")
			return fn
		}
		if !more {
			break
		}
	}
	return ""
}

// Opts tunes RunL1.
type L1Opts struct {
	Budget     int
	StopAt     int
	ParseOnly  bool
	WantFormat bool
	MaxEffects int
	// AfterStopProbe: after a stop, deliver one more HandleEvent to check that it has no effect.
	AfterStopProbe bool
}

var heapBallast [][]byte

// InstallSchedule puts a schedule behind all seams.
func InstallSchedule(s *Schedule) {
	maporder.Reset(s.Map)
	epoch := s.EpochNs
	if epoch == 0 {
		epoch = 1_700_000_000_000_000_000
	}
	simtime.Reset(epoch, s.ClockCostNs)
	gs := s.GlobalRand
	if gs == 0 {
		gs = 1
	}
	simrand.Reset(gs)
	heapBallast = nil
	if s.HeapPrealloc > 0 {
		// perturb addresses: allocate (and keep) a schedule-dependent amount first
		for i := 0; i < s.HeapPrealloc; i++ {
			heapBallast = append(heapBallast, make([]byte, 64+(i%7)*48))
		}
	}
}

// ParseProgram runs the real parser, recovering parser crashes.
func ParseProgram(src string, res *Result) (prog *parser.Program) {
	defer func() {
		if p := recover(); p != nil {
			res.EndClass = EndParserCrash
			res.ParseErr = fmt.Sprint(p)
			res.EndMsg = res.ParseErr
			res.TopFrame = TopEvyFrame()
			prog = nil
		}
	}()
	prog, err := parser.Parse(src, evaluator.BuiltinDecls())
	if err != nil {
		res.EndClass = EndParseError
		res.ParseErr = err.Error()
		res.EndMsg = res.ParseErr
		return nil
	}
	res.Accepted = true
	return prog
}

// RunL1 executes one scenario at level L1 under its schedule and faults.
func RunL1(sc *Scenario, o L1Opts) *Result {
	Heartbeat()
	res := &Result{Stage: "parse"}
	InstallSchedule(&sc.Schedule)
	prog := ParseProgram(sc.Program, res)
	res.MapDigest, res.MapDecisions = maporder.Digest()
	if prog == nil {
		return res
	}
	if o.WantFormat {
		func() {
			first := false
			defer func() {
				if p := recover(); p != nil {
					if first {
						// the first call worked, asking again crashed
						res.Formatted += "\nFORMAT-REPEAT-DIFFERS:\nFORMAT-CRASH: " + fmt.Sprint(p)
						res.FormatRepeatDiffers = true
						return
					}
					res.Formatted = "FORMAT-CRASH: " + fmt.Sprint(p)
				}
			}()
			res.Formatted = prog.Format()
			first = true
			// formatting is a function of the source: asking again must give the same text
			if again := prog.Format(); again != res.Formatted {
				res.Formatted += "\nFORMAT-REPEAT-DIFFERS:\n" + again
				res.FormatRepeatDiffers = true
			}
		}()
	}
	if o.ParseOnly {
		res.EndClass = EndOK
		return res
	}
	if o.WantFormat && !res.FormatRepeatDiffers {
		// ... and asking once more after the program has run (or crashed, or was stopped) as well:
		// running must not change what the parsed program formats to
		first := res.Formatted
		defer func() {
			defer func() {
				if p := recover(); p != nil {
					res.Formatted = first + "\nFORMAT-REPEAT-DIFFERS:\nFORMAT-CRASH: " + fmt.Sprint(p)
					res.FormatRepeatDiffers = true
				}
			}()
			if again := prog.Format(); again != first {
				res.Formatted = first + "\nFORMAT-REPEAT-DIFFERS:\n" + again
				res.FormatRepeatDiffers = true
			}
		}()
	}
	p := plat.New(sc.Inputs)
	p.InDelay = sc.Schedule.InDelay
	p.Budget = o.Budget
	if o.MaxEffects > 0 {
		p.MaxEffects = o.MaxEffects
	}
	p.StopAt = o.StopAt
	for _, f := range sc.Faults {
		if f.Kind == "stop" {
			p.StopAt = f.At
		}
	}
	res.P = p
	rs := sc.RandSeed
	if rs == 0 {
		rs = 1
	}
	evaluator.RandSource = rand.New(rand.NewSource(rs)) //nolint:gosec
	ev := evaluator.NewEvaluator(p)
	p.Ev = ev
	ev.TestInfo.NoTestSummary = sc.NoTestSummary
	ev.TestInfo.FailFast = sc.FailFast

	evaluator.SimTypeMonOn = true
	evaluator.SimTypeMonTake()
	evaluator.SimStopMonTake()
	checks0 := evaluator.SimTypeMonChecks
	if evaluator.SimTestsCompleted >= 0 {
		evaluator.SimTestsCompleted = 0
	}
	defer func() {
		res.TestsCompleted = evaluator.SimTestsCompleted
		if p.Ev != nil {
			res.TestsCounted = p.Ev.TestInfo.TotalCount()
		}
		res.StopMon = evaluator.SimStopMonTake()
		res.TypeMon = evaluator.SimTypeMonTake()
		res.TypeMonChecks = evaluator.SimTypeMonChecks - checks0
	}()
	res.Stage = "eval"
	p.Idle() // before Eval starts: the platform may already have been told to stop
	err, hp := guarded(res, func() error { return ev.Eval(prog) })
	res.MapDigest, res.MapDecisions = maporder.Digest()
	if hp {
		res.EvalEnd = EndHostPanic
		return res
	}
	res.EndClass, res.EndMsg = Classify(err)
	res.EvalEnd = res.EndClass
	if err != nil {
		return res
	}
	// event loop, mirroring pkg/wasm/main.go:handleEvents
	if len(ev.EventHandlerNames) == 0 {
		return res
	}
	registered := map[string]bool{}
	for _, n := range ev.EventHandlerNames {
		registered[n] = true
	}
	for i, e := range sc.Events {
		if !registered[e.Name] {
			continue // the page attaches listeners only on registration
		}
		p.Idle()
		if ev.Stopped {
			break
		}
		res.Stage = fmt.Sprintf("event:%d", i)
		p.InHandler = true
		err, hp := guarded(res, func() error { return ev.HandleEvent(evaluator.Event{Name: e.Name, Params: e.Params()}) })
		p.InHandler = false
		if hp {
			return res
		}
		if err != nil {
			res.EndClass, res.EndMsg = Classify(err)
			res.EventErrs = append(res.EventErrs, res.EndClass)
			return res
		}
		res.EventsDone++
	}
	if !ev.Stopped {
		p.Idle()
	}
	if ev.Stopped {
		// the wasm loop returns nil when stopped between events; the page shows "stopped"
		res.EndClass, res.EndMsg = EndStopped, "stopped"
	}
	res.MapDigest, res.MapDecisions = maporder.Digest()
	return res
}

// guarded runs f, converting a Go panic into a host-panic result.
func guarded(res *Result, f func() error) (err error, hostPanic bool) {
	defer func() {
		if p := recover(); p != nil {
			res.EndClass = EndHostPanic
			res.HostPanic = fmt.Sprint(p)
			res.EndMsg = res.HostPanic
			res.TopFrame = TopEvyFrame()
			hostPanic = true
		}
	}()
	return f(), false
}
