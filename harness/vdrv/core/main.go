package core

import (
	"flag"
	"fmt"
	"os"
)

// Main is the driver binary's entry point: parent, worker, replay and minimise modes.
func Main(driver func(prop string) Driver, observeFn func(sc *Scenario, n int) string) {
	a := &Args{}
	var regen int
	flag.StringVar(&a.Prop, "prop", "", "property id")
	flag.StringVar(&a.Tier, "tier", "quick", "quick|thorough")
	flag.Uint64Var(&a.Seed, "seed", 1, "VERIF_SEED")
	flag.IntVar(&a.Workers, "workers", 16, "worker processes")
	flag.IntVar(&a.Worker, "worker", -1, "worker index (internal)")
	flag.StringVar(&a.OutDir, "outdir", "", "scratch dir for worker output")
	flag.StringVar(&a.Evidence, "evidence", "", "evidence file")
	flag.StringVar(&a.Replays, "replays", "", "replay dir")
	flag.StringVar(&a.Known, "known", "", "known_findings.json")
	flag.StringVar(&a.Corpus, "corpus", "", "corpus dir")
	flag.StringVar(&a.Replay, "replay", "", "replay file")
	flag.StringVar(&a.Minimise, "minimise", "", "scenario to minimise (internal)")
	flag.StringVar(&a.MinOut, "minout", "", "output of -minimise/-regen (internal)")
	flag.StringVar(&a.Tree, "tree", "", "description of the tree under test")
	flag.StringVar(&a.Scratch, "scratch", "", "scratch dir (plain copy, binaries)")
	flag.IntVar(&a.Limit, "limit", 0, "limit the number of items")
	flag.StringVar(&a.Skip, "skip", "", "items to skip (internal)")
	flag.IntVar(&regen, "regen", -1, "regenerate the base scenario of an item (internal)")
	observe := flag.String("observe", "", "run a scenario natively and print its observables (plain binary)")
	repeat := flag.Int("repeat", 1, "repetitions for -observe")
	flag.Parse()
	ScratchDir = a.Scratch
	if *observe != "" {
		sc, err := Load(*observe)
		if err != nil {
			os.Exit(2)
		}
		if observeFn != nil {
			fmt.Print(observeFn(sc, *repeat))
		}
		os.Exit(0)
	}

	if a.Replay != "" {
		sc, err := Load(a.Replay)
		if err != nil {
			fmt.Fprintln(os.Stderr, "check:", err)
			os.Exit(2)
		}
		d := driver(sc.Property)
		if d == nil {
			fmt.Fprintln(os.Stderr, "check: no driver for", sc.Property)
			os.Exit(2)
		}
		if sc.Kind == "host-fatal" {
			fmt.Fprintln(os.Stderr, "replaying a scenario that killed its worker; expect this process to die")
		}
		v := d.Check(sc)
		if v == nil {
			fmt.Printf("replay: property %s held for %s (not reproduced)\n", sc.Property, a.Replay)
			os.Exit(0)
		}
		fmt.Printf("VIOLATION property=%s replay=%s\n", sc.Property, a.Replay)
		fmt.Fprintf(os.Stderr, "  oracle=%s signature=%s\n  expected: %s\n  observed: %v\n", v.Oracle, v.Signature, v.Expected, v.Observed)
		os.Exit(1)
	}
	d := driver(a.Prop)
	if d == nil {
		fmt.Fprintln(os.Stderr, "check: no driver for property", a.Prop)
		os.Exit(2)
	}
	if a.Minimise != "" {
		sc, err := Load(a.Minimise)
		if err != nil {
			os.Exit(2)
		}
		m := Minimise(d, sc, 2000)
		if err := m.Save(a.MinOut); err != nil {
			os.Exit(2)
		}
		os.Exit(0)
	}
	if regen >= 0 {
		st := &Ctx{Seed: a.Seed, Tier: a.Tier, Corpus: a.Corpus}
		sc := d.Regen(regen, st)
		if sc == nil {
			os.Exit(2)
		}
		if err := sc.Save(a.MinOut); err != nil {
			os.Exit(2)
		}
		os.Exit(0)
	}
	if a.Worker >= 0 {
		os.Exit(WorkerMain(d, a))
	}
	os.Exit(ParentMain(d, a))
}
