package core

import (
	"strings"
)

// Retargeter lets a driver re-aim the faults of a candidate whose program
// text was shrunk (fault-point numbers move when statements disappear).
type Retargeter interface {
	Retarget(cand *Scenario) []*Scenario
}

// Shrinker lets a driver add property-specific shrink candidates.
type Shrinker interface {
	Shrink(sc *Scenario) []*Scenario
}

type unit struct{ from, to int } // inclusive line range

func indentOf(l string) int {
	n := 0
	for n < len(l) && (l[n] == ' ' || l[n] == '\t') {
		n++
	}
	return n
}

func opener(l string) bool {
	t := strings.TrimSpace(l)
	for _, k := range []string{"func ", "on ", "if ", "while ", "for "} {
		if strings.HasPrefix(t, k) {
			return true
		}
	}
	return false
}

// units lists removable line ranges of an Evy program: single statements and
// whole blocks (opener .. matching end), at every depth, larger ones first.
func units(lines []string) []unit {
	var us []unit
	for i := 0; i < len(lines); i++ {
		t := strings.TrimSpace(lines[i])
		if t == "" || t == "end" || t == "else" || strings.HasPrefix(t, "else if ") {
			if t == "" {
				us = append(us, unit{i, i})
			}
			continue
		}
		if opener(lines[i]) {
			d := indentOf(lines[i])
			j := i + 1
			for j < len(lines) {
				tj := strings.TrimSpace(lines[j])
				if tj == "end" && indentOf(lines[j]) == d {
					break
				}
				j++
			}
			if j < len(lines) {
				us = append(us, unit{i, j})
			}
			continue
		}
		us = append(us, unit{i, i})
	}
	// larger first
	for i := 1; i < len(us); i++ {
		for j := i; j > 0 && (us[j].to-us[j].from) > (us[j-1].to-us[j-1].from); j-- {
			us[j], us[j-1] = us[j-1], us[j]
		}
	}
	return us
}

func without(lines []string, u unit) string {
	out := make([]string, 0, len(lines))
	out = append(out, lines[:u.from]...)
	out = append(out, lines[u.to+1:]...)
	return strings.Join(out, "\n")
}

// Minimise shrinks sc while d.Check keeps failing with the same oracle.
func Minimise(d Driver, sc *Scenario, maxSteps int) *Scenario {
	v0 := d.Check(sc)
	if v0 == nil {
		return sc
	}
	oracle, sig := v0.Oracle, v0.Signature
	best := sc.Clone()
	steps := 0
	// a candidate is kept only if it fails the same oracle with the same
	// signature: shrinking must not drift into a different violation (in
	// particular not into a known finding, which would then hide this one)
	still := func(c *Scenario) *Violation {
		steps++
		v := d.Check(c)
		if v != nil && v.Oracle == oracle && v.Signature == sig {
			return v
		}
		return nil
	}
	lastV := v0
	for changed := true; changed && steps < maxSteps; {
		changed = false
		// events
		for i := len(best.Events) - 1; i >= 0 && steps < maxSteps; i-- {
			c := best.Clone()
			c.Events = append(c.Events[:i:i], c.Events[i+1:]...)
			if v := still(c); v != nil {
				best, lastV, changed = c, v, true
			}
		}
		// inputs
		for i := len(best.Inputs) - 1; i >= 0 && steps < maxSteps; i-- {
			c := best.Clone()
			c.Inputs = append(c.Inputs[:i:i], c.Inputs[i+1:]...)
			if v := still(c); v != nil {
				best, lastV, changed = c, v, true
			}
		}
		// files (keep at least one)
		for i := len(best.Files) - 1; i >= 0 && len(best.Files) > 1 && steps < maxSteps; i-- {
			c := best.Clone()
			c.Files = append(c.Files[:i:i], c.Files[i+1:]...)
			if v := still(c); v != nil {
				best, lastV, changed = c, v, true
			}
		}
		// program text
		if best.Program != "" {
			for again := true; again && steps < maxSteps; {
				again = false
				lines := strings.Split(strings.TrimRight(best.Program, "\n"), "\n")
				for _, u := range units(lines) {
					if steps >= maxSteps {
						break
					}
					c := best.Clone()
					c.Program = without(lines, u) + "\n"
					if strings.TrimSpace(c.Program) == "" {
						continue
					}
					if v := still(c); v != nil {
						best, lastV, changed, again = c, v, true, true
						break
					}
					if rt, ok := d.(Retargeter); ok {
						hit := false
						for _, alt := range rt.Retarget(c) {
							if steps >= maxSteps {
								break
							}
							if v := still(alt); v != nil {
								best, lastV, changed, again, hit = alt, v, true, true, true
								break
							}
						}
						if hit {
							break
						}
					}
				}
			}
		}
		// driver specific
		if sh, ok := d.(Shrinker); ok {
			for again := true; again && steps < maxSteps; {
				again = false
				for _, c := range sh.Shrink(best) {
					if steps >= maxSteps {
						break
					}
					if v := still(c); v != nil {
						best, lastV, changed, again = c, v, true, true
						break
					}
				}
			}
		}
	}
	best.Oracle = lastV.Oracle
	best.Signature = lastV.Signature
	best.Expected = lastV.Expected
	best.Observed = lastV.Observed
	if best.Observed == nil {
		best.Observed = map[string]any{}
	}
	if lastV.Match != nil {
		best.Observed["match"] = lastV.Match
	}
	best.Minimised = true
	best.MinimiseSteps = steps
	return best
}
