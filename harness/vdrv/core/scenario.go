// Package core holds what every driver shares: explicit scenarios (= replay
// files), the L1 runner, result classification (the C02 monitor), the
// parent/worker machinery, known-findings matching and the evidence writer.
package core

import (
	"encoding/json"
	"fmt"
	"math"
	"os"
	"strconv"

	"evylang.dev/evy/vsim/maporder"
	"evylang.dev/evy/vsim/prng"
	"evylang.dev/evy/vsim/simos"
)

// Event is one delivered event. Params are JSON-safe: numbers as strings so
// that NaN/Inf/-0 survive.
type Event struct {
	Name string   `json:"name"`
	Num  []string `json:"num,omitempty"` // float64 params, strconv 'g' -1
	Str  []string `json:"str,omitempty"`
	AtNs int64    `json:"at_ns,omitempty"`
}

// Params converts to the []any the evaluator expects.
func (e Event) Params() []any {
	var ps []any
	for _, n := range e.Num {
		ps = append(ps, ParseNum(n))
	}
	for _, s := range e.Str {
		ps = append(ps, s)
	}
	return ps
}

// ParseNum parses the scenario encoding of a float.
func ParseNum(s string) float64 {
	switch s {
	case "NaN":
		return math.NaN()
	case "+Inf", "Inf":
		return math.Inf(1)
	case "-Inf":
		return math.Inf(-1)
	case "-0":
		return math.Copysign(0, -1)
	}
	v, _ := strconv.ParseFloat(s, 64)
	return v
}

// FmtNum is the inverse of ParseNum.
func FmtNum(v float64) string {
	if v == 0 && math.Signbit(v) {
		return "-0"
	}
	return strconv.FormatFloat(v, 'g', -1, 64)
}

// Schedule is everything the scheduler decides for one run.
type Schedule struct {
	Map          maporder.Schedule `json:"map"`
	EpochNs      int64             `json:"epoch_ns,omitempty"`
	ClockCostNs  int64             `json:"clock_cost_ns,omitempty"`
	GlobalRand   int64             `json:"global_rand_seed,omitempty"`
	HeapPrealloc int               `json:"heap_prealloc,omitempty"`
	InDelay      []int             `json:"input_delay_polls,omitempty"`
}

// Fault is one injected fault at L1/L2.
type Fault struct {
	Kind string `json:"kind"` // stop | stop-click
	At   int    `json:"at_fault_point,omitempty"`
	AtNs int64  `json:"at_ns,omitempty"`
}

// FileSpec is one file of a C18 scenario.
type FileSpec struct {
	Name    string `json:"name"`
	Mode    uint32 `json:"mode"`
	Content string `json:"content"`
	Link    string `json:"link,omitempty"` // C18: the entry is a symbolic link with this (relative) target
	Hard    string `json:"hard,omitempty"` // C18: the entry is a second name (hard link) of this other file of the scenario
}

// Scenario is explicit: the seed only generates scenarios, the replay file
// contains the scenario itself.
type Scenario struct {
	Property      string    `json:"property"`
	Oracle        string    `json:"oracle,omitempty"`
	Seed          uint64    `json:"seed"`
	Index         int       `json:"index"`
	Tier          string    `json:"tier,omitempty"`
	Level         string    `json:"level,omitempty"`
	Kind          string    `json:"kind,omitempty"`
	Program       string    `json:"program"`
	Inputs        []string  `json:"inputs,omitempty"`
	Events        []Event   `json:"events,omitempty"`
	RandSeed      int64     `json:"rand_seed"`
	NoTestSummary bool      `json:"no_test_summary,omitempty"`
	FailFast      bool      `json:"fail_fast,omitempty"`
	Schedule      Schedule  `json:"schedule"`
	Schedule2     *Schedule `json:"schedule2,omitempty"` // C08: the second schedule of a disagreeing pair
	Faults        []Fault   `json:"faults,omitempty"`

	// C18
	Files   []FileSpec    `json:"files,omitempty"`
	Argv    []string      `json:"argv,omitempty"`
	Stdin   string        `json:"stdin,omitempty"`
	OSFault []simos.Fault `json:"os_faults,omitempty"`
	Then    []FileSpec    `json:"then_files,omitempty"` // C18 histories: the files as edited before a second, fault-free run

	// C02 stream scenarios
	StdinChunks []int  `json:"stdin_chunks,omitempty"`
	StdoutFault string `json:"stdout_fault,omitempty"`
	StdoutLimit int    `json:"stdout_limit,omitempty"`

	// C20
	Sealed map[string]string `json:"sealed,omitempty"`

	Expected string         `json:"expected,omitempty"`
	Observed map[string]any `json:"observed,omitempty"`

	Minimised     bool   `json:"minimised,omitempty"`
	MinimiseSteps int    `json:"minimise_steps,omitempty"`
	ReplayExact   bool   `json:"replay_exact"`
	Signature     string `json:"signature,omitempty"`
	Tree          string `json:"tree,omitempty"`
}

// Clone deep-copies through JSON.
func (s *Scenario) Clone() *Scenario {
	b, _ := json.Marshal(s)
	var c Scenario
	_ = json.Unmarshal(b, &c)
	return &c
}

// Hash identifies a scenario's content.
func (s *Scenario) Hash() uint64 {
	c := *s
	c.Observed, c.Expected, c.Minimised, c.MinimiseSteps, c.Signature, c.Tree = nil, "", false, 0, "", ""
	b, _ := json.Marshal(&c)
	return prng.HashString(string(b))
}

// Load reads a replay file.
func Load(path string) (*Scenario, error) {
	b, err := os.ReadFile(path)
	if err != nil {
		return nil, err
	}
	var s Scenario
	if err := json.Unmarshal(b, &s); err != nil {
		return nil, fmt.Errorf("%s: %w", path, err)
	}
	return &s, nil
}

// Save writes a replay file.
func (s *Scenario) Save(path string) error {
	b, err := json.MarshalIndent(s, "", "  ")
	if err != nil {
		return err
	}
	return os.WriteFile(path, append(b, '\n'), 0o644)
}
