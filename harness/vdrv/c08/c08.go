// Package c08: parsing, formatting and running are deterministic.
//
// The adversary named by the property – Go's randomisation of map iteration
// order – sits behind the maporder seam and is driven by the schedule; clock
// epoch, the auto-seeded global rand source and heap layout vary with the
// schedule too. For fixed (source, inputs, events, rand seed) all observables
// must be byte-identical under every schedule.
package c08

import (
	"fmt"
	"os"
	"os/exec"
	"path/filepath"
	"strings"

	"evylang.dev/evy/vdrv/core"
	"evylang.dev/evy/vdrv/gen"
	"evylang.dev/evy/vdrv/work"
	"evylang.dev/evy/vsim/maporder"
	"evylang.dev/evy/vsim/prng"
)

// L2Item and L2Check are set by package c08l2 in binaries built from the rewritten tree.
var (
	L2Item   func(idx int, ctx *core.Ctx)
	L2Check  func(sc *core.Scenario) *core.Violation
	CLIItem  func(idx int, ctx *core.Ctx)
	CLICheck func(sc *core.Scenario) *core.Violation
	// CLICleanup removes the CLI layer's work directory.
	CLICleanup func()
)

// Cleanup implements the optional worker clean-up hook.
func (d *D) Cleanup() {
	if CLICleanup != nil {
		CLICleanup()
	}
}

// D is the driver.
type D struct{ base []bool }

// baseline: the sites every run visits with >= 2 keys (tables of built-ins);
// visiting only those does not make a case non-trivial.
func (d *D) baseline() []bool {
	if d.base != nil {
		return d.base
	}
	sc := &core.Scenario{Program: "print 1\n", RandSeed: 1}
	sc.Schedule.Map.Default.Kind = maporder.Asc
	core.RunL1(sc, core.L1Opts{Budget: 100})
	d.base = make([]bool, len(maporder.Sites)+1)
	for id, st := range maporder.Stats() {
		if st.Visits2 > 0 && id < len(d.base) {
			d.base[id] = true
		}
	}
	return d.base
}

func (d *D) Property() string { return "C08" }
func (d *D) Level() string    { return "exploration" }

type tierCfg struct {
	items     int
	schedules int
	siteFlips bool
	native    int // every n-th item also runs on the unrewritten tree in fresh processes (0 = never)
	budget    int
}

func cfg(tier string) tierCfg {
	if tier == "thorough" {
		return tierCfg{items: 60000, schedules: 16, siteFlips: true, native: 20, budget: 20000}
	}
	return tierCfg{items: 1400, schedules: 6, siteFlips: true, native: 8, budget: 6000}
}

func (d *D) Count(tier string) int { return cfg(tier).items }

// targeted programs aimed at the places where Go maps meet the user.
var targeted = []string{
	"a := 1\nb := 2\nc := 3\n",
	"func side:num s:string\n    print s\n    return 1\nend\nm := {a:(side \"A\") b:(side \"B\") c:(side \"C\")}\nprint m\n",
	"font {foo:1 bar:2 baz:3}\n",
	"arr := [1]\nm:{}[]any\nm = {a:arr b:[2]}\nprint m\n",
	"arr := [1]\nm := {a:arr b:[2] c:[]}\nprint (typeof m)\n",
	"m := {z:1 y:2 x:3 w:4}\nfor k := range m\n    print k m[k]\nend\nprint m (repr m)\n",
	"m1 := {a:1 b:2 c:3}\nm2 := {c:3 b:2 a:1}\nprint (m1 == m2)\ntest m1 m2\n",
	"m := {a:[1 2] b:[3] c:[]}\ndel m \"b\"\nm.d = [4]\nprint m (len m)\nfor k := range m\n    print k\nend\n",
	"font {size:-1 weight:0 align:\"nowhere\" baseline:\"x\"}\n",
	"font {family:1 size:\"s\" style:2}\n",
	"func f\n    x := 1\n    y := 2\n    z := 3\nend\nf\n",
	"if true\n    a := 1\n    b := 2\nend\nwhile false\n    c := 3\n    d := 4\nend\n",
	"m := {a:(1/0) b:(panicky 1) c:(panicky 2)}\nprint m\nfunc panicky:num n:num\n    print \"p\" n\n    if n > 0\n        panic (sprint \"boom\" n)\n    end\n    return n\nend\n",
	"x:any\nx = {a:1 b:\"s\" c:true}\nprint x (typeof x)\nm := {a:{x:1 y:2} b:{y:3 x:4}}\nprint m\n",
	"on key k:string\n    m := {a:k b:k+k c:\"c\"}\n    print m\nend\non down x:num y:num\n    print {x:x y:y}\nend\n",
	"m := {b:[] a:[1]}\nn := {a:[] b:[\"s\"]}\nprint (typeof m) (typeof n)\n",
	"m := {a:[] b:{} c:[[]] d:1}\nprint (typeof m) m\n",
	"u1 := 1\nu2 := \"s\"\nfunc g a:num\n    v1 := a\n    v2 := a\nend\non key\n    w1 := 1\n    w2 := 2\nend\n",
	// built-ins that return composites, in literals, inferred declarations and any values (their declared types are shared by every parse of the process)
	"words := [(split \"c d\" \" \") []]\nx := split \"a b\" \" \"\nprint (typeof words) words[0][1] x (typeof x)\n",
	"x := split \"a,b\" \",\"\ny := [x (split \"c\" \",\")]\nz := [(split \"d\" \",\") [\"e\"]]\na:any\na = split \"f g\" \" \"\nprint (typeof y) (typeof z) (typeof a) x y z a\n",
	"func f:[]string\n    return split \"a b\" \" \"\nend\nm := {k:(split \"a\" \"b\") j:[]}\nw := f\nprint (typeof m) (typeof w) m w (typeof [(f) []])\n",
	// multiline literals with blank lines and comments in every position (formatter bookkeeping)
	"a := [\n    1\n\n\n    2\n\n\n\n    3\n]\nm := {\n    a:1\n\n\n    b:2\n\n\n}\nprint a m\n",
	"a := [ // c1\n    1 // c2\n\n\n    // c3\n    [\n\n\n        2\n\n\n        3\n    ]\n]\nprint a\n",
	"m := {a:[\n\n\n    1\n    2\n\n\n\n] b:{\n\n\n    x:1\n\n\n}}\nprint m // trailing\n\n\n\n// end\n",
	// misspelt names that are equally close to several known names (diagnostics that suggest or list candidates)
	"printt 1\ncolur \"red\"\nrand2 3\nx := lenn \"abc\"\nprnt x\nmovee 1 2\nstr2nu \"1\"\n",
	"func alpha1 n:num\n    print n\nend\nfunc alpha2 n:num\n    print n\nend\nfunc beta:num\n    return 1\nend\nalpha3 1\nalpha 2\nx := bet\nprint x\nbeta1\n",
	"count1 := 1\ncount2 := 2\ncountx := count3 + count\nprint count1 count2 countx\nm := {aa:1 ab:2}\nprint m.ac m.a\n",
	"on keyy k:string\n    print k\nend\non dwn x:num y:num\n    print x y\nend\non key k:strin\n    print k\nend\nx:nums\ny:[]strng\n",
	"print [\n\n\n    \"a\"\n\n\n    \"b\"\n] {\n\n\n    k:1\n}\nfunc f:[]num\n    return [\n        1\n\n\n        2\n    ]\nend\nprint (f)\n",
}

// Base builds item idx.
func (d *D) Base(idx int, ctx *core.Ctx) *core.Scenario {
	r := core.ItemRNG(ctx.Seed, "C08", idx)
	var sc *core.Scenario
	switch {
	case idx < len(targeted):
		sc = &core.Scenario{Property: "C08", Seed: ctx.Seed, Index: idx, Level: "L1", Kind: "targeted", Program: targeted[idx], RandSeed: 1, ReplayExact: true}
		sc.Events = work.Events(r, work.HandlerNames(sc.Program), 6)
	case idx%4 == 1:
		files := work.Corpus(ctx.Corpus)
		if len(files) == 0 {
			return nil
		}
		cf := files[r.Intn(len(files))]
		sc = work.FromCorpus(r, cf, "C08", ctx.Seed, idx)
		if r.Chance(0.6) {
			sc.Program = mutate(r, sc.Program)
			sc.Kind += "+mutated"
		}
	default:
		o := work.SwarmOpts(r)
		o.MapLits = r.Chance(0.7)
		o.FontBad = r.Chance(0.3)
		o.Graphics = o.Graphics || o.FontBad
		o.Rand = r.Chance(0.4)
		switch r.Intn(5) {
		case 0:
			o.Unused = true
		case 1:
			o.NearMiss = true
		case 2:
			o.Unused, o.NearMiss = true, true
		}
		sc = work.Generated(r, o, "C08", ctx.Seed, idx)
		if r.Chance(0.2) {
			lines := strings.Split(sc.Program, "\n")
			for n := r.Range(1, 3); n > 0; n-- {
				i := r.Intn(len(lines))
				lines[i] = typo(r, lines[i])
			}
			sc.Program = strings.Join(lines, "\n")
			sc.Kind += "+typos"
		}
	}
	if idx >= len(targeted) && idx%9 == 4 {
		// values that outlive the construct that made them (literals evaluated repeatedly, repetition
		// copies, variadic arrays kept after the call): what they show later must not depend on the
		// allocator or the collector
		sc.Program, sc.Events = work.MapLife(r)
		sc.Inputs = nil
		sc.Kind = "lifecycle"
	}
	sc.NoTestSummary = false
	return sc
}

// Regen implements core.Driver.
func (d *D) Regen(idx int, ctx *core.Ctx) *core.Scenario { return d.Base(idx, ctx) }

// mutate applies corpus mutators: statement delete/duplicate/swap, identifier renames.
func mutate(r *prng.R, src string) string {
	lines := strings.Split(src, "\n")
	if len(lines) < 3 {
		return src
	}
	for n := r.Range(1, 3); n > 0; n-- {
		i := r.Intn(len(lines))
		switch r.Intn(6) {
		case 4, 5:
			lines[i] = typo(r, lines[i])
		case 0:
			lines = append(lines[:i], lines[i+1:]...)
		case 1:
			lines = append(lines[:i+1], lines[i:]...)
		case 2:
			j := r.Intn(len(lines))
			lines[i], lines[j] = lines[j], lines[i]
		case 3:
			f := strings.Fields(lines[i])
			if len(f) > 1 {
				lines[i] = strings.Replace(lines[i], f[len(f)-1], f[len(f)-1]+"X", 1)
			}
		}
		if len(lines) < 2 {
			break
		}
	}
	return strings.Join(lines, "\n")
}

// typo misspells one identifier of the line by a single edit (drop, double, replace or
// append a character, swap two): the result is usually a near miss of one or more known
// names, which is where diagnostics start to list or suggest candidates.
func typo(r *prng.R, line string) string {
	type span struct{ a, b int }
	var ids []span
	inStr := false
	for i := 0; i < len(line); {
		c := line[i]
		if c == '"' {
			inStr = !inStr
		}
		if !inStr && (c >= 'a' && c <= 'z' || c >= 'A' && c <= 'Z' || c == '_') {
			j := i
			for j < len(line) && (line[j] >= 'a' && line[j] <= 'z' || line[j] >= 'A' && line[j] <= 'Z' || line[j] >= '0' && line[j] <= '9' || line[j] == '_') {
				j++
			}
			ids = append(ids, span{i, j})
			i = j
			continue
		}
		if !inStr && c == '/' && i+1 < len(line) && line[i+1] == '/' {
			break
		}
		i++
	}
	if len(ids) == 0 {
		return line
	}
	sp := ids[r.Intn(len(ids))]
	w := []byte(line[sp.a:sp.b])
	k := r.Intn(len(w))
	switch r.Intn(5) {
	case 0:
		if len(w) > 1 {
			w = append(w[:k], w[k+1:]...)
		}
	case 1:
		w = append(w[:k+1], w[k:]...)
	case 2:
		w[k] = "abcdefghijklmnopqrstuvwxyz"[r.Intn(26)]
	case 3:
		w = append(w, "123xt"[r.Intn(5)])
	case 4:
		if k+1 < len(w) {
			w[k], w[k+1] = w[k+1], w[k]
		}
	}
	return line[:sp.a] + string(w) + line[sp.b:]
}

// schedules draws K schedules; the first is always plain ascending.
func schedules(r *prng.R, k int) []core.Schedule {
	out := make([]core.Schedule, 0, k)
	for i := 0; i < k; i++ {
		var s core.Schedule
		switch i {
		case 0:
			s.Map.Default = maporder.Policy{Kind: maporder.Asc}
		case 1:
			s.Map.Default = maporder.Policy{Kind: maporder.Desc}
			s.EpochNs = 1 << 40
			s.GlobalRand = 99
			s.HeapPrealloc = 1000
		case 2:
			s.Map.Default = maporder.Policy{Kind: maporder.Rot, Rot: 1}
			s.EpochNs = 1_800_000_000_123_456_789
			s.GlobalRand = 7
		case 3:
			s.Map.Default = maporder.Policy{Kind: maporder.Shuffle, Seed: r.Uint64()}
			s.HeapPrealloc = 333
		default:
			if i%2 == 0 {
				s.Map.Default = maporder.Policy{Kind: maporder.Rot, Rot: 1 + r.Intn(5)}
			} else {
				s.Map.Default = maporder.Policy{Kind: maporder.Shuffle, Seed: r.Uint64()}
			}
			s.EpochNs = int64(r.Uint64() >> 3)
			s.GlobalRand = int64(r.Intn(1 << 30))
			s.HeapPrealloc = r.Intn(3000)
			s.ClockCostNs = int64(r.Intn(100000))
		}
		out = append(out, s)
	}
	return out
}

// Observables renders everything the property lists.
func observables(res *core.Result) string {
	var b strings.Builder
	b.WriteString("PARSE:\n")
	b.WriteString(res.ParseErr)
	b.WriteString("\nFORMAT:\n")
	b.WriteString(res.Formatted)
	b.WriteString("\nTRACE:\n")
	b.WriteString(res.Trace())
	return b.String()
}

func run(sc *core.Scenario, s core.Schedule, budget int) (*core.Result, string) {
	c := *sc
	c.Schedule = s
	c.Schedule.InDelay = sc.Schedule.InDelay
	res := core.RunL1(&c, core.L1Opts{Budget: budget, WantFormat: true, MaxEffects: 5000})
	return res, observables(res)
}

func firstDiff(a, b string) map[string]any {
	la, lb := strings.Split(a, "\n"), strings.Split(b, "\n")
	for i := 0; i < len(la) || i < len(lb); i++ {
		var x, y string
		if i < len(la) {
			x = la[i]
		}
		if i < len(lb) {
			y = lb[i]
		}
		if x != y {
			if len(x) > 300 {
				x = x[:300]
			}
			if len(y) > 300 {
				y = y[:300]
			}
			return map[string]any{"line": i, "schedule1": x, "schedule2": y}
		}
	}
	return nil
}

func part(s, name string) string {
	i := strings.Index(s, name+":\n")
	if i < 0 {
		return ""
	}
	rest := s[i+len(name)+2:]
	for _, n := range []string{"\nFORMAT:\n", "\nTRACE:\n"} {
		if j := strings.Index(rest, n); j >= 0 {
			rest = rest[:j]
		}
	}
	return rest
}

// section names the first observable that differs.
func section(a, b string) string {
	for _, name := range []string{"PARSE", "FORMAT"} {
		if part(a, name) != part(b, name) {
			return strings.ToLower(name)
		}
	}
	return "trace"
}

func violation(sc *core.Scenario, s1, s2 core.Schedule, o1, o2 string, r2 *core.Result) (*core.Scenario, *core.Violation) {
	v := sc.Clone()
	v.Schedule = s1
	v.Schedule.InDelay = sc.Schedule.InDelay
	v.Schedule2 = &s2
	sec := section(o1, o2)
	obs := map[string]any{"first_difference": firstDiff(o1, o2), "observable": sec}
	// name the sites that were visited with >= 2 keys: candidates for the cause
	var sites []string
	for id, st := range maporder.Stats() {
		if st.Visits2 > 0 {
			sites = append(sites, fmt.Sprintf("%s (site %d, %d visits with >=2 keys)", maporder.SiteName(id), id, st.Visits2))
		}
	}
	obs["map_sites_visited_with_2+_keys"] = sites
	return v, &core.Violation{Oracle: "schedule-independence", Signature: "diff:" + sec,
		Expected: "parse errors, formatted text, effect trace and final result are identical under every schedule (map order, clock epoch, global rand seed, heap layout)",
		Observed: obs, Match: map[string]string{"observable": sec}}
}

// RunItem runs one (program, inputs, events, seed) under K schedules.
func (d *D) RunItem(idx int, ctx *core.Ctx) {
	c := cfg(ctx.Tier)
	if idx%10 == 7 && idx >= len(targeted) && L2Item != nil {
		L2Item(idx, ctx)
		return
	}
	if idx%10 == 3 && idx >= len(targeted) && CLIItem != nil {
		CLIItem(idx, ctx)
		return
	}
	sc := d.Base(idx, ctx)
	if sc == nil {
		return
	}
	sc.Tier = ctx.Tier
	r := core.ItemRNG(ctx.Seed, "C08-sched", idx)
	scheds := schedules(r, c.schedules)
	res0, obs0 := run(sc, scheds[0], c.budget)
	ctx.Inc("evaluations", 1)
	if res0.FormatRepeatDiffers {
		v := sc.Clone()
		v.Schedule = scheds[0]
		v.Kind = "format-repeat"
		ctx.Violate(v, &core.Violation{Oracle: "format-repeat", Signature: "format:repeat", Expected: "formatting the same parsed program again gives the same text",
			Observed: map[string]any{"first_difference": firstDiff(res0.Formatted[:strings.Index(res0.Formatted, "\nFORMAT-REPEAT-DIFFERS:\n")], res0.Formatted[strings.Index(res0.Formatted, "\nFORMAT-REPEAT-DIFFERS:\n")+24:])},
			Match:    map[string]string{"observable": "format-repeat"}})
		return
	}
	if res0.Accepted {
		ctx.Inc("programs_accepted", 1)
	} else {
		ctx.Inc("programs_rejected", 1)
		if strings.Count(res0.ParseErr, "\n") >= 1 {
			ctx.Inc("programs_with_2+_parse_errors", 1)
		}
	}
	if res0.P != nil {
		ctx.Inc("simulated_ns", res0.P.NowNs)
		ctx.Inc("steps", int64(res0.P.Yields))
	}
	// sites reached with >= 2 keys in the reference run
	var multi []int
	for id, st := range maporder.Stats() {
		if st.Visits2 > 0 {
			multi = append(multi, id)
			ctx.Inc(fmt.Sprintf("site_visits2:%s", maporder.SiteName(id)), int64(st.Visits2))
		}
		if st.Uncontrolled {
			ctx.Inc("uncontrolled_site:"+maporder.SiteName(id), 1)
		}
	}
	progHash := prng.HashString(sc.Program + "\x00" + strings.Join(sc.Inputs, "\x01") + fmt.Sprint(len(sc.Events), sc.RandSeed))
	base := d.baseline()
	interesting := 0
	for _, id := range multi {
		if id >= len(base) || !base[id] {
			interesting++
		}
	}
	if interesting > 0 {
		ctx.Distinct(progHash)
		ctx.Inc("cases_reaching_a_program_dependent_site", 1)
	}
	found := false
	for i := 1; i < len(scheds) && !found; i++ {
		res, obs := run(sc, scheds[i], c.budget)
		ctx.Inc("evaluations", 1)
		ctx.Inc("schedule:"+scheds[i].Map.Default.Kind, 1)
		ctx.Sched(prng.Mix(progHash, res.MapDigest))
		if obs != obs0 {
			v, viol := violation(sc, scheds[0], scheds[i], obs0, obs, res)
			// localise: which single range statement reproduces the difference on its own?
			for _, site := range multi {
				s1 := scheds[0]
				s1.Map.Overrides = []maporder.Override{{Site: site, Policy: scheds[i].Map.Default}}
				r1, o1 := run(sc, s1, c.budget)
				ctx.Inc("evaluations", 1)
				if o1 != obs0 {
					v, viol = violation(sc, scheds[0], s1, obs0, o1, r1)
					viol.Signature += ":" + maporder.SiteName(site)
					viol.Match["site"] = maporder.SiteName(site)
					break
				}
			}
			ctx.Violate(v, viol)
			found = true
		}
	}
	if c.siteFlips && !found {
		// single-site flips: find dependences that a global reversal cancels out
		for _, site := range multi {
			s := scheds[0]
			s.Map.Overrides = []maporder.Override{{Site: site, Policy: maporder.Policy{Kind: maporder.Desc}}}
			res, obs := run(sc, s, c.budget)
			ctx.Inc("evaluations", 1)
			ctx.Inc("schedule:site-flip", 1)
			ctx.Sched(prng.Mix(progHash, res.MapDigest))
			if obs != obs0 {
				v, viol := violation(sc, scheds[0], s, obs0, obs, res)
				viol.Signature += ":" + maporder.SiteName(site)
				viol.Match["site"] = maporder.SiteName(site)
				ctx.Violate(v, viol)
				found = true
				break
			}
		}
	}
	if c.native > 0 && (prng.Mix(uint64(idx), 0x5eed)%uint64(c.native) == 0 || sc.Kind == "lifecycle" && idx%2 == 0) && !found && os.Getenv("VERIF_NO_CONFORM") == "" {
		d.native(sc, ctx, obs0, c.budget)
	}
	if len(ctx.St.Samples) < 3 && len(multi) > 0 && len(sc.Program) < 500 {
		ctx.Sample(map[string]any{"program": sc.Program, "inputs": sc.Inputs, "events": sc.Events, "rand_seed": sc.RandSeed,
			"schedules": len(scheds), "map_sites_with_2+_keys": len(multi), "accepted": res0.Accepted, "end": res0.EndClass}, 3)
	}
}

// native runs the scenario on the UNrewritten tree in fresh processes with
// different GOMAXPROCS: the Go runtime's own map seed and ASLR are the
// uncontrolled schedule here. This layer is a net under the seams.
func (d *D) native(sc *core.Scenario, ctx *core.Ctx, obsSim string, budget int) {
	bin := filepath.Join(core.ScratchDir, "bin", "drvplain")
	if _, err := os.Stat(bin); err != nil {
		ctx.Inc("native_layer_skipped_no_binary", 1)
		return
	}
	tmp, err := os.CreateTemp(core.ScratchDir, "native-*.json")
	if err != nil {
		return
	}
	tmp.Close() //nolint:errcheck
	defer os.Remove(tmp.Name())
	if err := sc.Save(tmp.Name()); err != nil {
		return
	}
	var first string
	for i, procs := range []string{"1", "4", "16"} {
		cmd := exec.Command(bin, "-observe", tmp.Name(), "-repeat", "6", "-budget", fmt.Sprint(budget))
		cmd.Env = append(os.Environ(), "GOMAXPROCS="+procs, fmt.Sprintf("GOGC=%d", 50+i*100))
		out, err := cmd.Output()
		ctx.Inc("evaluations", 6)
		ctx.Inc("native_process_runs", 1)
		if err != nil {
			ctx.Inc("native_process_failed", 1)
			return
		}
		o := string(out)
		if strings.Contains(o, "\nNATIVE-DISAGREE\n") {
			v := sc.Clone()
			v.ReplayExact = false
			ctx.Violate(v, &core.Violation{Oracle: "native-repeat", Signature: "native:in-process",
				Expected: "repeating the run in the same process reproduces all observables byte for byte",
				Observed: map[string]any{"output": tail(o, 1200)}, Match: map[string]string{"observable": "native"}})
			return
		}
		if i == 0 {
			first = o
		} else if o != first {
			v := sc.Clone()
			v.ReplayExact = false
			ctx.Violate(v, &core.Violation{Oracle: "native-repeat", Signature: "native:cross-process",
				Expected: "repeating the run in a new process reproduces all observables byte for byte",
				Observed: map[string]any{"first_difference": firstDiff(first, o)}, Match: map[string]string{"observable": "native"}})
			return
		}
	}
	// ... and the fresh processes agree with this worker process, which has parsed and run
	// many other programs before this one: nothing that earlier programs left behind in the
	// process (package-level tables, shared declarations, caches) may show in this one
	if first != "" && obsSim != first && !strings.Contains(obsSim, "FORMAT-CRASH") && !strings.Contains(obsSim, "host-panic") {
		v := sc.Clone()
		v.ReplayExact = false
		ctx.Violate(v, &core.Violation{Oracle: "native-repeat", Signature: "native:used-process",
			Expected: "a run in a process that has parsed and run other programs before reproduces, byte for byte, the run in a new process",
			Observed: map[string]any{"first_difference": firstDiff(first, obsSim), "note": "schedule1 = new process, schedule2 = this worker process after earlier programs"}, Match: map[string]string{"observable": "native-used-process"}})
	}
}

func tail(s string, n int) string {
	if len(s) > n {
		return s[len(s)-n:]
	}
	return s
}

// Observe is used by the plain binary: run the scenario n times natively and print the observables.
func Observe(sc *core.Scenario, n, budget int) string {
	var first string
	for i := 0; i < n; i++ {
		_, o := run(sc, sc.Schedule, budget)
		if i == 0 {
			first = o
		} else if o != first {
			d := firstDiff(first, o)
			return first + "\nNATIVE-DISAGREE\n" + fmt.Sprint(d) + "\n"
		}
	}
	return first
}

// Check re-executes a disagreeing pair.
func (d *D) Check(sc *core.Scenario) *core.Violation {
	if sc.Kind == "format-repeat" {
		res, _ := run(sc, sc.Schedule, cfg(sc.Tier).budget)
		if res.FormatRepeatDiffers {
			return &core.Violation{Oracle: "format-repeat", Signature: "format:repeat", Expected: "formatting the same parsed program again gives the same text",
				Observed: map[string]any{}, Match: map[string]string{"observable": "format-repeat"}}
		}
		return nil
	}
	if sc.Level == "L2" {
		if L2Check == nil {
			return nil
		}
		return L2Check(sc)
	}
	if sc.Level == "cli" {
		if CLICheck == nil {
			return nil
		}
		return CLICheck(sc)
	}
	if sc.Schedule2 == nil {
		if sc.Oracle == "native-repeat" {
			return nil // observation of uncontrolled nondeterminism: replay is probabilistic, not attempted in-process
		}
		return nil
	}
	budget := cfg(sc.Tier).budget
	_, o1 := run(sc, sc.Schedule, budget)
	r2, o2 := run(sc, *sc.Schedule2, budget)
	if o1 == o2 {
		return nil
	}
	_, v := violation(sc, sc.Schedule, *sc.Schedule2, o1, o2, r2)
	if s2 := sc.Schedule2; s2.Map.Default.Kind == maporder.Asc && len(s2.Map.Overrides) == 1 {
		v.Signature += ":" + maporder.SiteName(s2.Map.Overrides[0].Site)
		v.Match["site"] = maporder.SiteName(s2.Map.Overrides[0].Site)
	}
	return v
}

// Shrink reduces the pair of schedules to the fewest differences: plain
// ascending vs. a single-site flip usually names the range statement responsible.
func (d *D) Shrink(sc *core.Scenario) []*core.Scenario {
	if sc.Schedule2 == nil || sc.Level == "L2" || sc.Level == "cli" {
		return nil
	}
	var out []*core.Scenario
	plain := core.Schedule{InDelay: sc.Schedule.InDelay}
	plain.Map.Default = maporder.Policy{Kind: maporder.Asc}
	isPlain := func(s core.Schedule) bool {
		return s.Map.Default.Kind == maporder.Asc && len(s.Map.Overrides) == 0 && s.EpochNs == 0 && s.GlobalRand == 0 && s.HeapPrealloc == 0 && s.ClockCostNs == 0
	}
	if !isPlain(sc.Schedule) {
		c := sc.Clone()
		c.Schedule = plain
		out = append(out, c)
	}
	s2 := *sc.Schedule2
	// drop the non-map dimensions one at a time
	if s2.EpochNs != 0 {
		c := sc.Clone()
		c.Schedule2.EpochNs = 0
		out = append(out, c)
	}
	if s2.GlobalRand != 0 {
		c := sc.Clone()
		c.Schedule2.GlobalRand = 0
		out = append(out, c)
	}
	if s2.HeapPrealloc != 0 {
		c := sc.Clone()
		c.Schedule2.HeapPrealloc = 0
		out = append(out, c)
	}
	if s2.ClockCostNs != 0 {
		c := sc.Clone()
		c.Schedule2.ClockCostNs = 0
		out = append(out, c)
	}
	// replace a global policy by single-site flips
	if s2.Map.Default.Kind != maporder.Asc {
		for site := 1; site < len(maporder.Sites); site++ {
			c := sc.Clone()
			c.Schedule2.Map.Default = maporder.Policy{Kind: maporder.Asc}
			c.Schedule2.Map.Overrides = []maporder.Override{{Site: site, Policy: maporder.Policy{Kind: maporder.Desc}}}
			out = append(out, c)
		}
		for site := 1; site < len(maporder.Sites); site++ {
			c := sc.Clone()
			c.Schedule2.Map.Default = maporder.Policy{Kind: maporder.Asc}
			c.Schedule2.Map.Overrides = []maporder.Override{{Site: site, Policy: s2.Map.Default}}
			out = append(out, c)
		}
	}
	return out
}

var _ = gen.Opts{}

// Describe adds the property-specific evidence.
func (d *D) Describe(ev *core.Evidence, st *core.Stats) {
	c := st.Counters
	ev.Coverage["rule"] = "one evaluation = one simulated run of (source, inputs, events, rand seed) under one schedule (map-order policy per range site, clock epoch, global rand seed, heap pre-allocation), or one native run in the cross-process layer; a case is non-trivial if its reference run visited with >= 2 keys at least one rewritten map-range site that the trivial program `print 1` does not visit (i.e. a site whose map depends on the program); distinct by hash(program, inputs, #events, rand seed); distinct_schedules = distinct (case, sequence of (site, visit, permutation) decisions)"
	ev.Coverage["programs_accepted"] = c["programs_accepted"]
	ev.Coverage["programs_rejected"] = c["programs_rejected"]
	sites := map[string]int64{}
	var never []string
	for id := 1; id < len(maporder.Sites); id++ {
		n := c["site_visits2:"+maporder.SiteName(id)]
		sites[maporder.SiteName(id)] = n
		if n == 0 && !strings.HasPrefix(maporder.SiteName(id), "learn/") {
			never = append(never, maporder.SiteName(id))
		}
	}
	ev.Coverage["map_range_sites_visits_with_2+_keys"] = sites
	ev.Coverage["map_range_sites_never_reached_with_2+_keys"] = never
	ev.Coverage["faults_injected"] = map[string]int64{"map-order:desc": c["schedule:desc"], "map-order:rot": c["schedule:rot"], "map-order:shuffle": c["schedule:shuffle"],
		"map-order:single-site-flip": c["schedule:site-flip"], "native-process-runs": c["native_process_runs"], "L2 arrival-time/clock-cost variants": c["l2_timing_pairs"], "CLI in-process repetitions": c["cli_cases"] * 3, "CLI new-process runs": c["cli_native_process_runs"]}
	ev.Coverage["cli"] = map[string]int64{"cases": c["cli_cases"], "cases_with_svg_output": c["cli_cases_with_svg_output"], "native_process_runs": c["cli_native_process_runs"]}
	ev.Coverage["probes"] = map[string]int64{"cases_reaching_a_program_dependent_map_site": c["cases_reaching_a_program_dependent_site"], "programs_with_2+_parse_errors": c["programs_with_2+_parse_errors"],
		"cli_cases_with_svg_output": c["cli_cases_with_svg_output"], "l2_timing_pairs": c["l2_timing_pairs"], "native_process_runs": c["native_process_runs"] + c["cli_native_process_runs"]}
	ev.Coverage["simulated_time_s"] = float64(c["simulated_ns"]) / 1e9
	ev.Coverage["steps"] = c["steps"]
	ev.Coverage["components"] = map[string][]string{"real": {"lexer", "parser", "formatter", "evaluator", "builtins"}, "real in the CLI layer": {"kong, runCmd.Run (--rand-seed, --svg-out), cli.Platform, svg platform; the real binary in fresh processes for a sample"},
		"stub": {"platform (SimPlatform)", "Go map iteration order (maporder seam)", "clock (simtime)", "global math/rand (simrand)"}}
	ev.Assumptions = []string{
		"order of Evaluator.EventHandlerNames / Program.CalledBuiltinFuncs is not a user-visible observable (the page treats them as sets)",
		"the cross-process layer observes nondeterminism it does not control; a mismatch found only there is reported with replay_exact=false",
	}
	if c["native_layer_skipped_no_binary"] > 0 {
		ev.Assumptions = append(ev.Assumptions, "WARNING: native cross-process layer skipped (plain binary missing)")
	}
}
