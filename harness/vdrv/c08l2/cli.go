package c08l2

import (
	"bytes"
	"fmt"
	"os"
	"os/exec"
	"path/filepath"
	"strings"

	evymain "evylang.dev/evy"
	"evylang.dev/evy/vdrv/c08"
	"evylang.dev/evy/vdrv/core"
	"evylang.dev/evy/vdrv/work"
	"evylang.dev/evy/vsim/maporder"
	"evylang.dev/evy/vsim/prng"
	"evylang.dev/evy/vsim/simos"
)

// CLI layer: the real `evy run --rand-seed N --svg-out -` command (kong,
// runCmd.Run, cli.Platform, svg platform) is repeated in the same process
// under different schedules, and – for a sample – as the real binary in fresh
// processes. Text output, the SVG document, stderr and the exit status must
// be identical: this is the property's "in the same process or a new one".

func init() {
	c08.CLIItem = cliItem
	c08.CLICheck = cliCheck
	c08.CLICleanup = Cleanup
}

var workDir string

func wd() string {
	if workDir == "" {
		base := "/dev/shm"
		if st, err := os.Stat(base); err != nil || !st.IsDir() {
			base = core.ScratchDir
		}
		d, err := os.MkdirTemp(base, "evyverif-c08-")
		if err != nil {
			d, _ = os.MkdirTemp("", "evyverif-c08-")
		}
		workDir = d
		// `cls` in the terminal platform runs the external `clear` command: give it a
		// stub that leaves a visible mark in the captured output
		bin := filepath.Join(d, "bin")
		if os.MkdirAll(bin, 0o755) == nil {
			if os.WriteFile(filepath.Join(bin, "clear"), []byte("#!/bin/sh\necho '<CLEAR>'\n"), 0o755) == nil {
				os.Setenv("PATH", bin+string(os.PathListSeparator)+os.Getenv("PATH")) //nolint:errcheck
			}
		}
	}
	return workDir
}

// Cleanup removes the work directory.
func Cleanup() {
	if workDir != "" {
		os.RemoveAll(workDir) //nolint:errcheck
		workDir = ""
	}
}

func cliBase(idx int, ctx *core.Ctx) *core.Scenario {
	r := core.ItemRNG(ctx.Seed, "C08-cli", idx)
	o := work.SwarmOpts(r)
	o.Reads, o.Handlers, o.Unused, o.NearMiss, o.Endless = false, false, false, false, false
	o.Rand, o.Graphics = true, r.Chance(0.7)
	o.MapLits = r.Chance(0.5)
	o.FontBad = r.Chance(0.2)
	sc := work.Generated(r, o, "C08", ctx.Seed, idx)
	// make sure the random source matters
	sc.Program = "print (rand 1000) (rand1) (rand 10)\n" + sc.Program
	if r.Chance(0.4) {
		sc.Program = "print \"frame 0\"\ncls\nprint \"frame 1\"\ncls\nprint \"frame 2\"\nsleep 0.001\ncls\n" + sc.Program
	}
	sc.Kind = "cli"
	sc.Level = "cli"
	sc.RandSeed = int64(1 + r.Intn(1000))
	sc.Inputs, sc.Events = nil, nil
	return sc
}

type cliOut struct {
	status         int
	stdout, stderr string
	hostPanic      string
}

func (o cliOut) String() string {
	return fmt.Sprintf("status %d\npanic %s\nSTDOUT:\n%s\nSTDERR:\n%s\n", o.status, o.hostPanic, o.stdout, o.stderr)
}

func cliArgs(sc *core.Scenario, path string) []string {
	return []string{"run", "--skip-sleep", "--rand-seed", fmt.Sprint(sc.RandSeed), "--svg-out", "-", path}
}

func runCLI(sc *core.Scenario, s core.Schedule, path string) cliOut {
	core.HeartbeatNow()
	core.InstallSchedule(&s)
	simos.Reset(wd(), nil, 1)
	simos.SetStdin(strings.NewReader(""))
	var out cliOut
	var kout, kerr bytes.Buffer
	func() {
		defer func() {
			if r := recover(); r != nil {
				if e, ok := r.(simos.ExitPanic); ok {
					out.status = e.Code
					return
				}
				out.hostPanic = fmt.Sprint(r)
				out.status = 2
			}
		}()
		out.status = evymain.SimMain(cliArgs(sc, path), &kout, &kerr)
	}()
	out.stdout = simos.StdoutB.String()
	out.stderr = kerr.String() + simos.StderrB.String()
	// the file name is ours, not the program's
	out.stderr = strings.ReplaceAll(out.stderr, path, "PROGRAM")
	return out
}

func cliSchedules() []core.Schedule {
	a := core.Schedule{}
	a.Map.Default = maporder.Policy{Kind: maporder.Asc}
	// the clock-read cost differs by orders of magnitude: anything that measures
	// elapsed time sees a fast machine in one repetition and a slow one in the next
	b := core.Schedule{EpochNs: 1 << 42, GlobalRand: 77, HeapPrealloc: 500, ClockCostNs: 30_000_000}
	b.Map.Default = maporder.Policy{Kind: maporder.Desc}
	c := core.Schedule{EpochNs: 123456789, GlobalRand: 5, ClockCostNs: 3_000}
	c.Map.Default = maporder.Policy{Kind: maporder.Shuffle, Seed: 99}
	return []core.Schedule{a, b, c, a}
}

func writeProg(sc *core.Scenario) string {
	path := filepath.Join(wd(), fmt.Sprintf("p%d.evy", sc.Index%64))
	if err := os.WriteFile(path, []byte(sc.Program), 0o644); err != nil {
		panic(err)
	}
	return path
}

func cliCompare(sc *core.Scenario) (*core.Violation, cliOut) {
	path := writeProg(sc)
	var first cliOut
	for i, s := range cliSchedules() {
		o := runCLI(sc, s, path)
		if i == 0 {
			first = o
			continue
		}
		if o.String() != first.String() {
			la, lb := strings.Split(first.String(), "\n"), strings.Split(o.String(), "\n")
			k := 0
			for k < len(la) && k < len(lb) && la[k] == lb[k] {
				k++
			}
			get := func(l []string, i int) string {
				if i < len(l) {
					if len(l[i]) > 200 {
						return l[i][:200]
					}
					return l[i]
				}
				return "<nothing>"
			}
			return &core.Violation{Oracle: "cli-repeat", Signature: "cli:in-process",
				Expected: "repeating `evy run --rand-seed N` on the same source reproduces text output, SVG, stderr and exit status byte for byte",
				Observed: map[string]any{"repetition": i + 1, "first_difference_at_line": k, "first_run": get(la, k), "this_run": get(lb, k), "args": cliArgs(sc, "PROGRAM")},
				Match:    map[string]string{"observable": "cli"}}, first
		}
	}
	return nil, first
}

func cliItem(idx int, ctx *core.Ctx) {
	if idx%40 == 3 && os.Getenv("VERIF_NO_CONFORM") == "" {
		fmtRepeat(idx, ctx)
		return
	}
	if idx%40 == 13 && os.Getenv("VERIF_NO_CONFORM") == "" {
		// one program draws, with a style of its own, things that other programs draw too (a grid
		// alone between two style changes, a text, a shape); the next program in this process must
		// give what it gives in a new process
		r := core.ItemRNG(ctx.Seed, "C08-after", idx)
		first := []string{"color \"red\"\ngrid\ncolor \"blue\"\ncircle 1\n", "width 5\nfill \"none\"\ngridn 2 \"red\"\nwidth 1\nmove 5 5\ncircle 2\n", "stroke \"green\"\ndash 3 1\ngrid\n", "font {size:9 family:\"serif\"}\ncolor \"orange\"\ntext \"hi\"\ngridn 10 \"hsl(0deg 100% 0% / 50%)\"\nlinecap \"round\"\n"}[r.Intn(4)]
		second := []string{"grid\nmove 10 10\ncircle 2\n", "gridn 2 \"red\"\nmove 1 1\nline 5 5\n", "move 10 10\ntext \"hi\"\ngrid\n", "color \"black\"\ngrid\ngridn 10 \"hsl(0deg 100% 0% / 50%)\"\n"}[r.Intn(4)]
		a := &core.Scenario{Property: "C08", Seed: ctx.Seed, Index: idx, Level: "cli", Kind: "cli-after-another", Program: first, RandSeed: 1, Argv: []string{"--svg-out", "-"}}
		runCLI(a, cliSchedules()[0], writeProg(a))
		b := a.Clone()
		b.Program = second
		_, out := cliCompare(b)
		ctx.Inc("evaluations", 5)
		ctx.Inc("cli_cases_after_another_program", 1)
		b.Program = "// run in a process in which this program had been run before:\n// " + strings.ReplaceAll(first, "\n", "\n// ") + "\n" + second
		cliNative(b, ctx, out)
		return
	}
	sc := cliBase(idx, ctx)
	sc.Tier = ctx.Tier
	// only programs the parser accepts are interesting here (errors are compared too, but cheaply)
	v, first := cliCompare(sc)
	ctx.Inc("evaluations", 4)
	ctx.Inc("cli_cases", 1)
	if strings.Contains(first.stdout, "<svg") {
		ctx.Inc("cli_cases_with_svg_output", 1)
	}
	ctx.Distinct(prng.HashString("cli" + sc.Program + fmt.Sprint(sc.RandSeed)))
	if v != nil {
		ctx.Violate(sc, v)
		return
	}
	if prng.Mix(uint64(idx), 0xc11)%3 == 0 && os.Getenv("VERIF_NO_CONFORM") == "" {
		cliNative(sc, ctx, first)
	}
}

// cliNative runs the real binary (unrewritten tree) in fresh processes.
func cliNative(sc *core.Scenario, ctx *core.Ctx, inProcess cliOut) {
	bin := filepath.Join(core.ScratchDir, "bin", "evy")
	if _, err := os.Stat(bin); err != nil {
		ctx.Inc("cli_native_skipped_no_binary", 1)
		return
	}
	path := writeProg(sc)
	var first string
	for i, procs := range []string{"1", "8", "16"} {
		cmd := exec.Command(bin, cliArgs(sc, path)...)
		cmd.Env = append(os.Environ(), "GOMAXPROCS="+procs)
		var so, se bytes.Buffer
		cmd.Stdout, cmd.Stderr = &so, &se
		err := cmd.Run()
		code := 0
		if ee, ok := err.(*exec.ExitError); ok {
			code = ee.ExitCode()
		}
		ctx.Inc("evaluations", 1)
		ctx.Inc("cli_native_process_runs", 1)
		o := fmt.Sprintf("status %d\nSTDOUT:\n%s\nSTDERR:\n%s\n", code, so.String(), strings.ReplaceAll(se.String(), path, "PROGRAM"))
		if strings.Contains(o, "goroutine ") {
			return // a Go stack trace contains addresses; crashes are C02's business
		}
		if i == 0 {
			first = o
			// the command in this worker process - which has run many other programs, with their
			// drawings, before - gives what the command gives in a new process
			used := fmt.Sprintf("status %d\nSTDOUT:\n%s\nSTDERR:\n%s\n", inProcess.status, inProcess.stdout, inProcess.stderr)
			if inProcess.hostPanic == "" && !strings.Contains(sc.Program, "cls") && used != o {
				v := sc.Clone()
				v.ReplayExact = false
				ctx.Violate(v, &core.Violation{Oracle: "cli-repeat", Signature: "cli:used-process",
					Expected: "`evy run --rand-seed N` in a process that has run other programs before reproduces, byte for byte, what it gives in a new process",
					Observed: map[string]any{"args": cliArgs(sc, "PROGRAM"), "new_process": trunc(o, 700), "used_process": trunc(used, 700)},
					Match:    map[string]string{"observable": "cli-used-process"}})
				return
			}
		} else if o != first {
			v := sc.Clone()
			v.ReplayExact = false
			ctx.Violate(v, &core.Violation{Oracle: "cli-repeat", Signature: "cli:new-process",
				Expected: "repeating `evy run --rand-seed N` in a new process reproduces all output byte for byte",
				Observed: map[string]any{"args": cliArgs(sc, "PROGRAM"), "run1": trunc(first, 600), "run" + fmt.Sprint(i+1): trunc(o, 600)},
				Match:    map[string]string{"observable": "cli-native"}})
			return
		}
	}
}

func trunc(s string, n int) string {
	if len(s) > n {
		return s[:n] + "…"
	}
	return s
}

func cliCheck(sc *core.Scenario) *core.Violation {
	defer Cleanup()
	v, _ := cliCompare(sc)
	return v
}

// fmtRepeat: `evy fmt` (plain, -c) on several files of which several do not parse or are not
// formatted, as the real binary in fresh processes under different GOMAXPROCS: what it prints
// (formatted text, parse errors, which file it complains about), on which stream, and the exit
// status are a function of the files and their order on the command line.
func fmtRepeat(idx int, ctx *core.Ctx) {
	bin := filepath.Join(core.ScratchDir, "bin", "evy")
	if _, err := os.Stat(bin); err != nil {
		ctx.Inc("cli_native_skipped_no_binary", 1)
		return
	}
	r := core.ItemRNG(ctx.Seed, "C08-fmt", idx)
	dir := filepath.Join(wd(), fmt.Sprintf("fmt%d", idx%16))
	os.RemoveAll(dir)       //nolint:errcheck
	os.MkdirAll(dir, 0o755) //nolint:errcheck
	texts := []string{"x := 1\nprint x\n", "x:=1\nprint   x\n", "x := \nprint )\n", "print 1 +\nprint (\n", "func f\nprint 1\n", "a:=[1 2\n", "y := 2\nprint y // fine\n", "print   \"spaces\"\n"}
	n := r.Range(3, 12)
	var names []string
	desc := ""
	for i := 0; i < n; i++ {
		name := fmt.Sprintf("f%02d.evy", i)
		k := r.Intn(len(texts))
		desc += fmt.Sprint(k)
		if os.WriteFile(filepath.Join(dir, name), []byte(texts[k]), 0o644) != nil {
			return
		}
		names = append(names, name)
	}
	for _, mode := range [][]string{{"fmt", "-c"}, {"fmt"}} {
		var first string
		for i, procs := range []string{"16", "1", "4", "16", "8", "16"} {
			cmd := exec.Command(bin, append(append([]string{}, mode...), names...)...)
			cmd.Dir = dir
			cmd.Env = append(os.Environ(), "GOMAXPROCS="+procs)
			var so, se bytes.Buffer
			cmd.Stdout, cmd.Stderr = &so, &se
			err := cmd.Run()
			code := 0
			if ee, ok := err.(*exec.ExitError); ok {
				code = ee.ExitCode()
			}
			ctx.Inc("evaluations", 1)
			ctx.Inc("cli_native_fmt_runs", 1)
			o := fmt.Sprintf("status %d\nSTDOUT:\n%s\nSTDERR:\n%s\n", code, so.String(), se.String())
			if strings.Contains(o, "goroutine ") {
				break
			}
			if i == 0 {
				first = o
			} else if o != first {
				sc := &core.Scenario{Property: "C08", Seed: ctx.Seed, Index: idx, Level: "cli-native", Kind: "fmt-repeat", ReplayExact: false, Argv: append(append([]string{}, mode...), names...), Program: desc}
				ctx.Violate(sc, &core.Violation{Oracle: "cli-repeat", Signature: "cli:fmt-new-process",
					Expected: "repeating `evy fmt` on the same files in a new process reproduces output, errors and exit status byte for byte",
					Observed: map[string]any{"files": desc, "args": sc.Argv, "run1": trunc(first, 700), "run" + fmt.Sprint(i+1): trunc(o, 700)},
					Match:    map[string]string{"observable": "cli-fmt"}})
				return
			}
		}
	}
}
