// Package c08l2 is the L2 timing layer of C08: same program, same event
// ORDER, different arrival times, clock/step costs and epochs – the trace seen
// by the browser must not change. (Kept apart from c08 because it needs the
// rewritten pkg/wasm, which the plain binary does not have.)
package c08l2

import (
	"fmt"
	"strings"

	"evylang.dev/evy/vdrv/c08"
	"evylang.dev/evy/vdrv/core"
	"evylang.dev/evy/vdrv/l2"
	"evylang.dev/evy/vdrv/work"
	"evylang.dev/evy/vsim/maporder"
	"evylang.dev/evy/vsim/prng"
)

func init() {
	c08.L2Item = runItem
	c08.L2Check = check
}

func opts() l2.Opts {
	return l2.Opts{StopWhenIdle: true, AutoType: true, RelativeToReg: true, MaxVirtualNs: 90_000_000_000, MaxSteps: 1_500_000}
}

func base(idx int, ctx *core.Ctx) *core.Scenario {
	r := core.ItemRNG(ctx.Seed, "C08-l2", idx)
	o := work.SwarmOpts(r)
	o.Handlers, o.Unused, o.NearMiss, o.Endless, o.Tests = true, false, false, false, false
	o.Sleeps = r.Chance(0.6)
	o.Reads = r.Chance(0.4)
	o.Rand = r.Chance(0.4)
	// animate is excluded: its payload is the clock reading itself
	for _, n := range []string{"key", "down", "up", "move", "input"} {
		if r.Chance(0.5) {
			o.HandlerSet = append(o.HandlerSet, n)
		}
	}
	if len(o.HandlerSet) == 0 {
		o.HandlerSet = []string{"key"}
	}
	sc := work.Generated(r, o, "C08", ctx.Seed, idx)
	sc.Kind = "l2-timing"
	sc.Level = "L2"
	return sc
}

// timing draws arrival times and costs that keep the ORDER of events.
func timing(r *prng.R, sc *core.Scenario, variant int) *core.Scenario {
	c := sc.Clone()
	var t int64
	for i := range c.Events {
		switch variant {
		case 0:
			t += 1_000_000
		case 1:
			t += 700_000_000 // each event long after the previous handler finished
		default:
			t += int64(1+r.Intn(400)) * int64([]int{1_000, 100_000, 5_000_000}[r.Intn(3)])
		}
		c.Events[i].AtNs = t
	}
	switch variant {
	case 0:
		c.Schedule.ClockCostNs = 20_000
	case 1:
		c.Schedule.ClockCostNs = 500_000
		c.Schedule.EpochNs = 1 << 41
		c.Schedule.GlobalRand = 5
		c.Schedule.Map.Default = maporder.Policy{Kind: maporder.Desc}
	default:
		c.Schedule.ClockCostNs = int64([]int{5_000, 50_000, 200_000}[r.Intn(3)])
		c.Schedule.EpochNs = int64(r.Uint64() >> 4)
		c.Schedule.GlobalRand = int64(r.Intn(1000))
		c.Schedule.Map.Default = maporder.Policy{Kind: maporder.Shuffle, Seed: r.Uint64()}
	}
	return c
}

func usable(a *l2.Result) bool {
	return a.HostPanic == "" && a.Aborted == "" && a.StopDuring != "timeout" && a.StopDuring != "step-budget"
}

func compare(s1, s2 *core.Scenario) *core.Violation {
	a := l2.Run(s1, opts())
	b := l2.Run(s2, opts())
	if !usable(a) || !usable(b) {
		return nil
	}
	ta, tb := a.Trace()+"ui "+a.PrepareUI+"\n", b.Trace()+"ui "+b.PrepareUI+"\n"
	if ta == tb {
		return nil
	}
	la, lb := strings.Split(ta, "\n"), strings.Split(tb, "\n")
	i := 0
	for i < len(la) && i < len(lb) && la[i] == lb[i] {
		i++
	}
	get := func(l []string, i int) string {
		if i < len(l) {
			return l[i]
		}
		return "<nothing>"
	}
	return &core.Violation{Oracle: "timing-independence", Signature: "L2:timing",
		Expected: "for the same program, input lines, delivered events (in the same order) and rand seed the trace seen by the browser does not depend on arrival times, clock cost, epoch, global rand seed or map order",
		Observed: map[string]any{"first_difference_at_line": i, "timing1": get(la, i), "timing2": get(lb, i), "events_delivered_1": len(a.Calls), "events_delivered_2": len(b.Calls)},
		Match:    map[string]string{"observable": "l2-trace"}}
}

func runItem(idx int, ctx *core.Ctx) {
	sc := base(idx, ctx)
	sc.Tier = ctx.Tier
	r := core.ItemRNG(ctx.Seed, "C08-l2-t", idx)
	s0 := timing(r, sc, 0)
	for v := 1; v <= 3; v++ {
		s1 := timing(r, sc, v)
		ctx.Inc("evaluations", 2)
		ctx.Inc("l2_timing_pairs", 1)
		ctx.Sched(prng.HashString(fmt.Sprint(s1.Events, s1.Schedule.ClockCostNs, s1.Schedule.EpochNs)))
		if viol := compare(s0, s1); viol != nil {
			f := s0.Clone()
			f.Schedule2 = &s1.Schedule
			f.Sealed = map[string]string{"events2": encodeTimes(s1.Events)}
			ctx.Violate(f, viol)
			return
		}
	}
	if len(sc.Events) > 0 {
		ctx.Distinct(prng.HashString("l2t" + sc.Program + fmt.Sprint(sc.Events)))
	}
}

func encodeTimes(evs []core.Event) string {
	var parts []string
	for _, e := range evs {
		parts = append(parts, fmt.Sprint(e.AtNs))
	}
	return strings.Join(parts, ",")
}

func check(sc *core.Scenario) *core.Violation {
	if sc.Schedule2 == nil {
		return nil
	}
	s2 := sc.Clone()
	s2.Schedule = *sc.Schedule2
	if ts := strings.Split(sc.Sealed["events2"], ","); len(ts) == len(s2.Events) {
		for i := range s2.Events {
			fmt.Sscan(ts[i], &s2.Events[i].AtNs) //nolint:errcheck
		}
	}
	return compare(sc, s2)
}
