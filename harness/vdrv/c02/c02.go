// Package c02: accepted programs never go wrong – the part of the property
// that arrives through the platform boundary: input lines (and where the
// stream ends), event payloads, sleeps and an external stop at any instant.
//
// Two kinds of runs: L1 monitor runs (generated and corpus programs under the
// simulated platform with adversarial payloads, short input scripts and a stop
// at a seeded fault point) and stream runs (the real `evy run` command with
// the real terminal platform; stdin is delivered in seeded chunks and ends
// after any byte, stdout may fail).
package c02

import (
	"bytes"
	"context"
	"fmt"
	"io"
	"os"
	"os/exec"
	"time"
	"path/filepath"
	"runtime"
	"strings"

	evymain "evylang.dev/evy"
	"evylang.dev/evy/pkg/evaluator"
	"evylang.dev/evy/vdrv/core"
	"evylang.dev/evy/vdrv/gen"
	"evylang.dev/evy/vdrv/l2"
	"evylang.dev/evy/vdrv/work"
	"evylang.dev/evy/vsim/prng"
	"evylang.dev/evy/vsim/simos"
)

// D is the driver.
type D struct {
	dir string
	n   int
}

func (d *D) Property() string { return "C02" }
func (d *D) Level() string    { return "exploration" }

type tierCfg struct {
	l1, stream int
	budget     int
	native     int // the real binary in a subprocess under a wall-clock bound: graphics built-ins with edge values on the SVG platform
}

func cfg(tier string) tierCfg {
	if tier == "thorough" {
		return tierCfg{l1: 1200000, stream: 300000, budget: 20000, native: 20000}
	}
	return tierCfg{l1: 6000, stream: 2000, budget: 6000, native: 640}
}

func (d *D) Count(tier string) int { c := cfg(tier); return c.l1 + c.stream + c.native }

// readers are programs for the stream scenarios.
var readers = []string{
	"s := read\nprint \"got\" s (typeof s) (len s)\n",
	"a := read\nb := read\nprint a b\n",
	"for i := range 3\n    l := read\n    print i l\nend\n",
	"print (upper (read)) (len (read))\n",
	"func ask:string q:string\n    print q\n    return read\nend\nn := str2num (ask \"n?\")\nprint n err errmsg\n",
	"total := 0\nwhile true\n    l := read\n    if l == \"\"\n        break\n    end\n    total = total + (len l)\nend\nprint total\n",
	"x:any\nx = read\nprint (typeof x) x\nm := {k:(read)}\nprint m\n",
	"print \"no input needed\"\n",
	"l := read\nif l == \"q\"\n    exit 3\nend\nif l == \"p\"\n    panic \"asked to panic\"\nend\nprint l[0] l[-1] l[1:]\n",
	"sleep 0.001\nl := read\nprint (split l \" \") (trim l \" \")\ntest (len l) (len l)\n",
	"l := read + \"h\\xc3\\xa9llo\\xff\"\nprint l (len l) l[1:] l[-1] l[:-1] l[2:4]\nfor c := range l\n    print c (len c)\nend\nprint (upper l) (index l \"o\") (split l \"l\")\n",
}

// Base builds item idx.
func (d *D) Base(idx int, ctx *core.Ctx) *core.Scenario {
	c := cfg(ctx.Tier)
	if idx >= c.l1+c.stream {
		return d.nativeBase(idx-(c.l1+c.stream), idx, ctx)
	}
	if idx >= c.l1 {
		return d.streamBase(idx, ctx)
	}
	r := core.ItemRNG(ctx.Seed, "C02", idx)
	var sc *core.Scenario
	if idx%7 == 3 {
		files := work.Corpus(ctx.Corpus)
		if len(files) == 0 {
			return nil
		}
		sc = work.FromCorpus(r, files[r.Intn(len(files))], "C02", ctx.Seed, idx)
	} else {
		o := work.SwarmOpts(r)
		o.Unused, o.NearMiss = false, false
		o.Panics = r.Chance(0.6)
		o.Specials = r.Chance(0.6)
		o.Rand = r.Chance(0.5)
		o.Reads = r.Chance(0.5)
		o.Handlers = r.Chance(0.6)
		sc = work.Generated(r, o, "C02", ctx.Seed, idx)
	}
	sc.Kind = "l1:" + sc.Kind
	if idx%11 == 5 {
		sc.Program = work.AnyWrap(r)
		sc.Kind = "l1:anywrap"
		sc.Inputs, sc.Events = nil, nil
	}
	if idx%17 == 9 || idx%23 == 11 {
		sc.Program, sc.Events = work.MapLife(r)
		sc.Kind = "l1:maplife"
		sc.Inputs = nil
	}
	if idx%19 == 13 {
		sc.Program, sc.Inputs = work.Formats(r)
		sc.Kind = "l1:formats"
		sc.Events = nil
	}
	if idx%6 == 4 {
		// programs that break ONE static rule and are rejected today: if a tree accepts one, it must still not go wrong
		sc.Program = work.NearValid((idx/6 + int(ctx.Seed%97)*131) % work.NearValidCount)
		sc.Kind = "l1:near-valid"
		sc.Inputs, sc.Events = nil, nil
	}
	if r.Chance(0.5) {
		sc.Faults = []core.Fault{{Kind: "stop", At: 1 + r.Intn(400)}}
	}
	if idx%13 == 7 {
		sc.Level = "L2"
		sc.Kind = "l2:" + strings.TrimPrefix(sc.Kind, "l1:")
		sc.Faults = nil
		sc.Schedule.ClockCostNs = int64([]int{5_000, 20_000, 200_000}[r.Intn(3)])
	}
	return sc
}

// graphics built-ins with one or two edge values each; %n is a number, %s a string
var gfxTemplates = []string{"move %n %n", "line %n %n", "rect %n %n", "circle %n", "width %n", "gridn %n \"red\"", "ellipse 50 50 %n %n", "ellipse 50 50 10 5 %n", "ellipse 50 50 10 5 0 %n %n",
	"dash %n %n", "dash %n", "poly [%n %n] [10 10] [20 5]", "poly [%n %n]", "poly", "text (sprint %n)", "font {size:%n}", "font {letterspacing:%n}", "font {weight:%n}", "move %n %n\ntext \"a<b&c\\\"d>\"",
	"color %s", "fill %s", "stroke %s", "linecap %s", "clear %s", "text %s", "font {family:%s}", "font {style:%s}", "gridn %n %s", "grid", "clear", "move %n 50\nline 50 %n\ncircle %n"}

var gfxNums = []string{"0", "(-1)", "(-0)", "0.5", "(100/11)", "(100/15)", "(100/60)", "0.000000001", "1000000000", "(0/0)", "(1/0)", "(-1/0)", "33.333", "101", "(-100)", "2", "(100/3)", "0.1"}

var gfxStrs = []string{"\"red\"", "\"\"", "\"none\"", "\"hsl(0deg 100% 50%)\"", "\"a<b&\\\"c'>\"", "\"é日本𝄞\"", "\"#ff000080\"", "\"round\"", "\"no such thing\"", "(\"x\" * 300)"}

// nativeBase: one drawing program for the real binary with --svg-out. Systematic: item j walks
// through templates × values, so that every built-in meets every edge value in the thorough tier.
func (d *D) nativeBase(j, idx int, ctx *core.Ctx) *core.Scenario {
	sc := &core.Scenario{Property: "C02", Seed: ctx.Seed, Index: idx, Level: "cli-native", Kind: "native-graphics", ReplayExact: true}
	k := j + int(ctx.Seed%89)*37
	t := gfxTemplates[k%len(gfxTemplates)]
	k /= len(gfxTemplates)
	for strings.Contains(t, "%n") {
		t = strings.Replace(t, "%n", gfxNums[k%len(gfxNums)], 1)
		k = k/len(gfxNums) + 7
	}
	for strings.Contains(t, "%s") {
		t = strings.Replace(t, "%s", gfxStrs[k%len(gfxStrs)], 1)
		k = k/len(gfxStrs) + 3
	}
	if strings.HasPrefix(t, "gridn 0.000000001 ") {
		// a spacing far below the line width: see known_findings.json; item 0 of this layer is that case, once
		t = strings.Replace(t, "0.000000001", "0.05", 1)
	}
	if j == 0 {
		t = "gridn 0.000000001 \"red\""
	}
	// the frame around the call: the call shares its style run with another shape, or is alone
	// between two style changes, or is the last thing the program does - in the default style or not
	pre := []string{"width 2\ncolor \"blue\"\nmove 10 10\n", "width 2\ncolor \"blue\"\nmove 10 10\n", "width 2\ncolor \"blue\"\nmove 10 10\n", "// default style\n\nmove 10 10\n"}[(j/7)%4]
	post := []string{"\ncircle 3\nprint \"done\"\n", "\ncolor \"red\"\ncircle 3\nprint \"done\"\n", "\n", "\nwidth 1\nprint \"done\"\n"}[(j/3)%4]
	if j == 0 {
		pre, post = "width 2\ncolor \"blue\"\nmove 10 10\n", "\ncircle 3\nprint \"done\"\n"
	}
	sc.Program = pre + t + post
	sc.Argv = []string{"--svg-out", "-"}
	return sc
}

// runNative runs the real evy binary (built from the unrewritten tree) in a subprocess under a
// wall-clock bound. A tiny drawing program ends within milliseconds; one that is still running
// after the bound is a host that hangs (bounded liveness), one that dies with a Go stack trace a
// host crash.
func (d *D) runNative(sc *core.Scenario, ctx *core.Ctx) *core.Violation {
	bin := filepath.Join(core.ScratchDir, "bin", "evy")
	if _, err := os.Stat(bin); err != nil {
		if ctx != nil {
			ctx.Inc("native_skipped_no_binary", 1)
		}
		return nil
	}
	pre := &core.Result{}
	core.InstallSchedule(&sc.Schedule)
	if core.ParseProgram(sc.Program, pre) == nil {
		if ctx != nil {
			ctx.Inc("evaluations", 1)
			ctx.Inc("programs_rejected_by_parser", 1)
		}
		return nil
	}
	d.n++
	path := filepath.Join(d.workdir(), fmt.Sprintf("n%d.evy", d.n%32))
	if err := os.WriteFile(path, []byte(sc.Program), 0o644); err != nil {
		panic(err)
	}
	// bounded liveness in real time: 20 s is more than two orders of magnitude above what the
	// slowest of these programs needs on an idle machine; if the bound is hit the program is run
	// once more with three times the bound, so that a loaded machine cannot make the verdict
	bound := 20 * time.Second
	var so, se bytes.Buffer
	var err error
	var timedOut bool
	for attempt := 0; attempt < 2; attempt++ {
		so.Reset()
		se.Reset()
		cctx, cancel := context.WithTimeout(context.Background(), bound)
		// own, smaller memory fence: a program that collects without end fails fast instead of filling the machine
		shArgs := append([]string{"-c", "ulimit -v 2500000; exec \"$0\" \"$@\"", bin, "run", "--rand-seed", "1"}, append(append([]string{}, sc.Argv...), path)...)
		cmd := exec.CommandContext(cctx, "sh", shArgs...)
		cmd.Stdout, cmd.Stderr = &capped{w: &so, n: 1 << 20}, &capped{w: &se, n: 1 << 20}
		core.HeartbeatNow()
		err = cmd.Run()
		core.HeartbeatNow()
		timedOut = cctx.Err() != nil
		cancel()
		if !timedOut {
			break
		}
		bound *= 3
	}
	code := 0
	if ee, ok := err.(*exec.ExitError); ok {
		code = ee.ExitCode()
	}
	if ctx != nil {
		ctx.Inc("evaluations", 1)
		ctx.Inc("native_process_runs", 1)
		ctx.Inc(fmt.Sprintf("native_status:%d", code), 1)
		ctx.Distinct(prng.HashString("native" + sc.Program))
	}
	obs := map[string]any{"args": append([]string{"run"}, sc.Argv...), "status": code, "stderr": trunc(strings.ReplaceAll(se.String(), path, "PROGRAM"), 400), "stdout_bytes": so.Len()}
	if timedOut {
		return &core.Violation{Oracle: "no-host-hang", Signature: "host-hang:native:" + sigOf(firstCall(sc.Program)),
			Expected: fmt.Sprintf("execution ends (normal completion, Evy panic, exit, failed test); this program was still running after %v of wall-clock time (second attempt)", bound/3),
			Observed: obs, Match: map[string]string{"outcome": "host-hang", "edge_call": firstCall(sc.Program)}}
	}
	if strings.Contains(se.String(), "goroutine ") || strings.Contains(se.String(), "fatal error:") {
		return &core.Violation{Oracle: "no-host-panic", Signature: "host-panic:native:" + sigOf(firstLine(se.String())),
			Expected: "execution never crashes the host runtime", Observed: obs, Match: map[string]string{"outcome": "host-panic", "top_evy_frame": "native", "value": sigOf(firstLine(se.String())), "edge_call": firstCall(sc.Program)}}
	}
	if strings.Contains(se.String(), "internal error") {
		return &core.Violation{Oracle: "no-internal-error", Signature: "internal:native", Expected: "never an internal or type error", Observed: obs, Match: map[string]string{"outcome": "internal"}}
	}
	return nil
}

type capped struct {
	w io.Writer
	n int
}

func (c *capped) Write(p []byte) (int, error) {
	if c.n > 0 {
		q := p
		if len(q) > c.n {
			q = q[:c.n]
		}
		c.n -= len(q)
		c.w.Write(q) //nolint:errcheck
	}
	return len(p), nil
}

func firstLine(s string) string { return strings.SplitN(strings.TrimSpace(s), "\n", 2)[0] }

// firstCall is the edge call of a native-graphics program (its fourth line).
func firstCall(prog string) string {
	l := strings.Split(prog, "\n")
	if len(l) > 3 {
		return l[3]
	}
	return prog
}

func (d *D) streamBase(idx int, ctx *core.Ctx) *core.Scenario {
	r := core.ItemRNG(ctx.Seed, "C02-stream", idx)
	sc := &core.Scenario{Property: "C02", Seed: ctx.Seed, Index: idx, Level: "cli-stream", Kind: "stream", ReplayExact: true}
	fromReaders := false
	switch k := r.Intn(10); {
	case k < 5:
		fromReaders = true
		sc.Program = readers[r.Intn(len(readers))]
	case k < 7:
		o := gen.Opts{Stmts: r.Range(2, 6), MaxDepth: 2, Funcs: r.Intn(2), Reads: true, Panics: r.Chance(0.3), Specials: r.Chance(0.3)}
		sc.Program = work.Generated(r, o, "C02", ctx.Seed, idx).Program
	default:
		// drawing programs: the command runs with --svg-out, so the real SVG platform is in the path
		o := gen.Opts{Stmts: r.Range(3, 12), MaxDepth: 2, Funcs: r.Intn(2), Graphics: true, Specials: r.Chance(0.4), FontBad: r.Chance(0.2), Panics: r.Chance(0.2)}
		sc.Program = work.Generated(r, o, "C02", ctx.Seed, idx).Program
		sc.Argv = []string{"--svg-out", "-"}
		if r.Chance(0.3) {
			sc.Argv = append(sc.Argv, "--svg-style", "border: 1px solid red", "--svg-width", "400", "--svg-height", "300")
		}
	}
	// the input: a few lines, then cut after any byte
	lines := work.Inputs(r, r.Intn(5))
	nl := "\n"
	if r.Chance(0.2) {
		nl = "\r\n"
	}
	full := ""
	for _, l := range lines {
		full += l + nl
	}
	switch r.Intn(4) {
	case 0: // complete lines only
	case 1: // end of input in the middle of a line
		full += []string{"abc", "x", "partial line"}[r.Intn(3)]
	case 2: // cut after an arbitrary byte
		if len(full) > 0 {
			full = full[:r.Intn(len(full)+1)]
		}
	case 3: // empty input
		full = ""
	}
	if r.Chance(0.1) && fromReaders {
		// a very long line, delivered over many reads (only for the fixed reader programs:
		// a generated program may loop over the line and print it each time)
		n := []int{4096, 65535, 65536, 70000, 300000}[r.Intn(5)]
		full = strings.Repeat("y", n) + nl + full
	}
	sc.Stdin = full
	for n := len(full); n > 0; {
		k := 1 + r.Intn(n)
		if r.Chance(0.3) {
			k = 1
		}
		sc.StdinChunks = append(sc.StdinChunks, k)
		n -= k
	}
	if r.Chance(0.25) {
		sc.StdoutFault = []string{"EPIPE", "EIO", "ENOSPC"}[r.Intn(3)]
		sc.StdoutLimit = r.Intn(20)
	}
	return sc
}

// Regen implements core.Driver.
func (d *D) Regen(idx int, ctx *core.Ctx) *core.Scenario { return d.Base(idx, ctx) }

// chunked delivers the input in the scenario's chunk sizes, then EOF.
type chunked struct {
	data   []byte
	chunks []int
	i      int
}

func (c *chunked) Read(p []byte) (int, error) {
	if len(c.data) == 0 {
		return 0, io.EOF
	}
	n := len(c.data)
	if c.i < len(c.chunks) {
		n = c.chunks[c.i]
		c.i++
	}
	if n > len(c.data) {
		n = len(c.data)
	}
	if n > len(p) {
		n = len(p)
	}
	copy(p, c.data[:n])
	c.data = c.data[n:]
	return n, nil
}

func (d *D) workdir() string {
	if d.dir == "" {
		base := "/dev/shm"
		if st, err := os.Stat(base); err != nil || !st.IsDir() {
			base = core.ScratchDir
		}
		dir, err := os.MkdirTemp(base, "evyverif-c02-")
		if err != nil {
			dir, _ = os.MkdirTemp("", "evyverif-c02-")
		}
		d.dir = dir
	}
	return d.dir
}

// Cleanup removes the work directory.
func (d *D) Cleanup() {
	if d.dir != "" {
		os.RemoveAll(d.dir) //nolint:errcheck
		d.dir = ""
	}
}

type streamOut struct {
	status    int
	hostPanic string
	topFrame  string
	stdout    string
	stderr    string
}

func evyFrame() string {
	pcs := make([]uintptr, 64)
	n := runtime.Callers(0, pcs)
	frames := runtime.CallersFrames(pcs[:n])
	for {
		f, more := frames.Next()
		if strings.Contains(f.Function, "evylang.dev/evy/pkg/") || strings.HasPrefix(f.Function, "evylang.dev/evy.") {
			if !strings.Contains(f.Function, "SimMain") {
				return strings.TrimPrefix(f.Function, "evylang.dev/evy/")
			}
		}
		if !more {
			break
		}
	}
	return ""
}

func (d *D) runStream(sc *core.Scenario) *streamOut {
	d.n++
	path := filepath.Join(d.workdir(), fmt.Sprintf("p%d.evy", d.n%32))
	if err := os.WriteFile(path, []byte(sc.Program), 0o644); err != nil {
		panic(err)
	}
	simos.Reset(d.workdir(), nil, 1)
	simos.SetStdin(&chunked{data: []byte(sc.Stdin), chunks: sc.StdinChunks})
	simos.StdoutFault, simos.StdoutLimit = sc.StdoutFault, sc.StdoutLimit
	out := &streamOut{}
	var kout, kerr bytes.Buffer
	func() {
		defer func() {
			if r := recover(); r != nil {
				switch e := r.(type) {
				case simos.ExitPanic:
					out.status = e.Code
				default:
					out.hostPanic = fmt.Sprint(r)
					out.topFrame = evyFrame()
					out.status = 2
				}
			}
		}()
		args := append([]string{"run", "--skip-sleep", "--rand-seed", "1"}, sc.Argv...)
		out.status = evymain.SimMain(append(args, path), &kout, &kerr)
	}()
	out.stdout = simos.StdoutB.String()
	out.stderr = kerr.String() + simos.StderrB.String()
	return out
}

func allowedEnd(class string) bool {
	switch strings.SplitN(class, ":", 2)[0] {
	case core.EndOK, core.EndPanic, core.EndExit, core.EndTestFailed, core.EndStopped, core.EndParseError, core.EndParserCrash:
		return true
	}
	return false
}

func trunc(s string, n int) string {
	if len(s) > n {
		return s[:n] + "…"
	}
	return s
}

// checkL2 runs the scenario under the simulated browser: the real string
// marshalling (alloc/getString), event queue and jsPlatform are in the path.
func (d *D) checkL2(sc *core.Scenario, ctx *core.Ctx) *core.Violation {
	pre := &core.Result{}
	core.InstallSchedule(&sc.Schedule)
	if core.ParseProgram(sc.Program, pre) == nil {
		if ctx != nil {
			ctx.Inc("evaluations", 1)
			if pre.EndClass == core.EndParserCrash {
				ctx.Inc("parser_crash_observed_outside_scope(C03)", 1)
			} else {
				ctx.Inc("programs_rejected_by_parser", 1)
			}
		}
		return nil
	}
	r := l2.Run(sc, l2.Opts{StopWhenIdle: true, AutoType: true, RelativeToReg: true, MaxVirtualNs: 60_000_000_000, MaxSteps: 1_000_000})
	if ctx != nil {
		ctx.Inc("evaluations", 1)
		ctx.Inc("l2_runs", 1)
		ctx.Inc("events_handled", int64(len(r.Calls)))
		ctx.Inc("simulated_ns", r.EndNs)
		ctx.Inc("steps", r.Steps)
		ctx.Distinct(prng.HashString("l2" + sc.Program + fmt.Sprint(sc.Events, sc.Inputs)))
	}
	if r.HostPanic != "" {
		return &core.Violation{Oracle: "no-host-panic", Signature: "host-panic:L2:" + trunc(sigOf(r.HostPanic), 34),
			Expected: "execution never crashes the host runtime",
			Observed: map[string]any{"panic": trunc(r.HostPanic, 300), "top_evy_frame": r.TopFrame, "events_delivered": len(r.Calls)},
			Match:    map[string]string{"outcome": "host-panic", "top_evy_frame": r.TopFrame, "value": sigOf(r.HostPanic)}}
	}
	if ctx != nil {
		ctx.Inc("typemon_checks", r.TypeMonChecks)
	}
	if v := typeMonViolation(r.TypeMon, "L2"); v != nil {
		return v
	}
	for _, e := range r.Errors {
		if strings.Contains(e, "internal error") && len(r.Registered)+len(r.Effects) > 0 {
			return &core.Violation{Oracle: "no-internal-error", Signature: "internal:L2", Expected: "never an internal or type error",
				Observed: map[string]any{"error": trunc(e, 300)}, Match: map[string]string{"outcome": "internal"}}
		}
	}
	return nil
}

// check runs one scenario and applies the monitor.
func (d *D) check(sc *core.Scenario, ctx *core.Ctx) *core.Violation {
	if sc.Level == "L2" {
		return d.checkL2(sc, ctx)
	}
	if sc.Kind == "native-graphics" {
		return d.runNative(sc, ctx)
	}
	if sc.Kind == "stream" {
		// only accepted programs are this property's business: a program the
		// parser rejects – or crashes on, which is C03's pure-input territory – is skipped and counted
		pre := &core.Result{}
		core.InstallSchedule(&sc.Schedule)
		if core.ParseProgram(sc.Program, pre) == nil {
			if ctx != nil {
				ctx.Inc("evaluations", 1)
				if pre.EndClass == core.EndParserCrash {
					ctx.Inc("parser_crash_observed_outside_scope(C03)", 1)
				} else {
					ctx.Inc("programs_rejected_by_parser", 1)
				}
			}
			return nil
		}
		evaluator.SimTypeMonOn = true
		evaluator.SimTypeMonTake()
		checks0 := evaluator.SimTypeMonChecks
		o := d.runStream(sc)
		typeMon := evaluator.SimTypeMonTake()
		if ctx != nil {
			ctx.Inc("typemon_checks", evaluator.SimTypeMonChecks-checks0)
			ctx.Inc("evaluations", 1)
			ctx.Inc("stream_runs", 1)
			ctx.Inc(fmt.Sprintf("stream_status:%d", o.status), 1)
			if sc.StdoutFault != "" {
				ctx.Inc("fired:stdout-"+sc.StdoutFault, 1)
			}
			if len(sc.Argv) > 0 {
				ctx.Inc("stream_runs_with_svg_platform", 1)
			}
			if !strings.HasSuffix(sc.Stdin, "\n") && sc.Stdin != "" {
				ctx.Inc("fired:eof-in-the-middle-of-a-line", 1)
			}
			if sc.Stdin == "" {
				ctx.Inc("fired:eof-before-first-byte", 1)
			}
			if len(sc.StdinChunks) > 1 {
				ctx.Inc("fired:short-reads", 1)
			}
			ctx.Distinct(prng.HashString(sc.Program + "\x00" + sc.Stdin + fmt.Sprint(sc.StdinChunks, sc.StdoutFault, sc.StdoutLimit)))
			ctx.Sched(prng.HashString(fmt.Sprint(sc.StdinChunks, len(sc.Stdin), sc.StdoutFault)))
		}
		if o.hostPanic != "" {
			return &core.Violation{Oracle: "no-host-panic", Signature: "host-panic:" + o.topFrame + ":" + sigOf(o.hostPanic),
				Expected: "execution ends by normal completion, a documented Evy panic, exit, a failed test or an external stop – never by crashing the host runtime",
				Observed: map[string]any{"panic": trunc(o.hostPanic, 300), "top_evy_frame": o.topFrame, "stdin": trunc(sc.Stdin, 200), "stdin_bytes": len(sc.Stdin), "stdin_chunks": len(sc.StdinChunks), "stdout_so_far": trunc(o.stdout, 300)},
				Match:    map[string]string{"outcome": "host-panic", "top_evy_frame": o.topFrame, "value": sigOf(o.hostPanic)}}
		}
		if v := typeMonViolation(typeMon, "stream"); v != nil {
			return v
		}
		if strings.Contains(o.stderr, "internal error") {
			return &core.Violation{Oracle: "no-internal-error", Signature: "internal:stream", Expected: "never an internal or type error",
				Observed: map[string]any{"stderr": trunc(o.stderr, 400)}, Match: map[string]string{"outcome": "internal"}}
		}
		return nil
	}
	res := core.RunL1(sc, core.L1Opts{Budget: cfg(sc.Tier).budget, MaxEffects: 20000})
	if ctx != nil {
		ctx.Inc("evaluations", 1)
		ctx.Inc("l1_runs", 1)
		if !res.Accepted {
			ctx.Inc("programs_rejected_by_parser", 1)
		} else {
			ctx.Inc("end:"+strings.SplitN(res.EndClass, ":", 2)[0], 1)
			ctx.Inc("events_handled", int64(res.EventsDone))
			if res.P != nil {
				ctx.Inc("simulated_ns", res.P.NowNs)
				ctx.Inc("steps", int64(res.P.Yields))
				if res.P.Raised && !res.P.RaisedByBudget && !res.P.RaisedByBlocked {
					ctx.Inc("fired:stop", 1)
				}
				if res.P.RaisedByBlocked {
					ctx.Inc("fired:input-exhausted", 1)
				}
			}
			ctx.Distinct(prng.HashString(sc.Program + "\x00" + fmt.Sprint(sc.Inputs, sc.Events, sc.Faults)))
			ctx.Sched(prng.HashString(fmt.Sprint(sc.Faults, len(sc.Events), len(sc.Inputs))))
		}
	}
	if ctx != nil {
		ctx.Inc("typemon_checks", res.TypeMonChecks)
	}
	if ctx != nil && sc.Kind == "l1:near-valid" {
		if res.Accepted {
			ctx.Inc("near_valid_programs_accepted_and_run", 1)
		} else {
			ctx.Inc("near_valid_programs_rejected", 1)
		}
	}
	if !res.Accepted {
		if ctx != nil && res.EndClass == core.EndParserCrash {
			ctx.Inc("parser_crash_observed_outside_scope(C03)", 1)
		}
		return nil
	}
	obs := func() map[string]any {
		return map[string]any{"end": res.EndClass, "message": trunc(res.EndMsg, 300), "top_evy_frame": res.TopFrame, "stage": res.Stage, "events_handled": res.EventsDone}
	}
	if res.EndClass == core.EndHostPanic {
		return &core.Violation{Oracle: "no-host-panic", Signature: "host-panic:" + trunc(sigOf(res.HostPanic), 34),
			Expected: "execution ends by normal completion, a documented Evy panic, exit, a failed test or an external stop – never by crashing the host runtime",
			Observed: obs(), Match: map[string]string{"outcome": "host-panic", "top_evy_frame": res.TopFrame, "value": sigOf(res.HostPanic)}}
	}
	if !allowedEnd(res.EndClass) {
		return &core.Violation{Oracle: "no-internal-error", Signature: "end:" + res.EndClass + ":" + trunc(sigOf(res.EndMsg), 50),
			Expected: "never an internal or type error", Observed: obs(), Match: map[string]string{"outcome": res.EndClass}}
	}
	if strings.HasPrefix(res.EndClass, core.EndStopped) && res.P != nil && !res.P.Raised {
		return &core.Violation{Oracle: "stopped-only-when-stopped", Signature: "stopped-without-stop", Expected: "'stopped' only after an external stop",
			Observed: obs(), Match: map[string]string{"outcome": "stopped-without-stop"}}
	}
	if v := typeMonViolation(res.TypeMon, "L1"); v != nil {
		return v
	}
	// values that crossed the boundary carry their declared type
	if res.P != nil {
		for _, e := range res.P.Effects {
			if strings.HasPrefix(e, "print \"TYPEOF ") {
				f := strings.Fields(strings.TrimSuffix(strings.TrimPrefix(e, "print \"TYPEOF "), "\\n\""))
				if len(f) == 2 && f[0] != f[1] {
					return &core.Violation{Oracle: "boundary-type", Signature: "typeof:" + f[0] + ":" + f[1], Expected: "a value bound to a handler parameter or returned by read has the declared type",
						Observed: map[string]any{"declared": f[0], "typeof": f[1]}, Match: map[string]string{"outcome": "typeof"}}
				}
			}
		}
	}
	return nil
}

// typeMonViolation turns the first mismatch the run-time type monitor saw into a violation.
// The monitor sits around the evaluator's central eval method (xform): the value of every
// expression node must be a possible value of the static type the parser gave the node, an
// any must hold a concrete non-any type and a value of that type, and a map's key order and
// entries must agree.
func typeMonViolation(tm, level string) *core.Violation {
	if tm == "" {
		return nil
	}
	f := strings.SplitN(tm, "|", 4)
	for len(f) < 4 {
		f = append(f, "")
	}
	return &core.Violation{Oracle: "runtime-type", Signature: "typemon:" + f[0] + ":" + f[1] + ":" + trunc(sigOf(f[2]), 50),
		Expected: "at run time every value has the type the parser assigned to its expression, and a value stored in an any carries a concrete non-any type",
		Observed: map[string]any{"level": level, "node": f[0], "static_type": f[1], "value": f[2], "where": trunc(f[3], 200)},
		Match:    map[string]string{"outcome": "runtime-type", "node": f[0], "static_type": f[1]}}
}

// sigOf keeps the stable part of a message (no positions, no values).
func sigOf(msg string) string {
	msg = trunc(msg, 60)
	var b strings.Builder
	for _, r := range msg {
		if r >= '0' && r <= '9' {
			continue
		}
		b.WriteRune(r)
	}
	return strings.Join(strings.Fields(b.String()), " ")
}

const typeofProbe = "on key k:string\n    print \"TYPEOF\" \"string\" (typeof k)\nend\non down x:num y:num\n    print \"TYPEOF\" \"num\" (typeof x)\n    print \"TYPEOF\" \"num\" (typeof y)\nend\non animate t:num\n    print \"TYPEOF\" \"num\" (typeof t)\nend\non input i:string v:string\n    print \"TYPEOF\" \"string\" (typeof i)\n    print \"TYPEOF\" \"string\" (typeof v)\nend\ns := read\nprint \"TYPEOF\" \"string\" (typeof s)\na:any\na = read\nprint \"TYPEOF\" \"string\" (typeof a)\n"

// RunItem implements core.Driver.
func (d *D) RunItem(idx int, ctx *core.Ctx) {
	sc := d.Base(idx, ctx)
	if sc == nil {
		return
	}
	sc.Tier = ctx.Tier
	if idx%97 == 0 && sc.Kind != "stream" && sc.Kind != "native-graphics" {
		r := core.ItemRNG(ctx.Seed, "C02-typeof", idx)
		sc.Program = typeofProbe
		sc.Kind = "l1:typeof-probe"
		sc.Inputs = work.Inputs(r, 2)
		sc.Events = work.Events(r, []string{"key", "down", "animate", "input"}, 20)
		sc.Faults = nil
	}
	if v := d.check(sc, ctx); v != nil {
		ctx.Violate(sc, v)
	}
	if len(ctx.St.Samples) < 3 && sc.Kind == "stream" && sc.Stdin != "" {
		ctx.Sample(map[string]any{"kind": "stream", "program": sc.Program, "stdin": sc.Stdin, "stdin_chunks": sc.StdinChunks, "stdout_fault": sc.StdoutFault}, 3)
	}
}

// Check implements core.Driver.
func (d *D) Check(sc *core.Scenario) *core.Violation {
	defer d.Cleanup()
	return d.check(sc, nil)
}

// Shrink: shorter input, fewer chunks.
func (d *D) Shrink(sc *core.Scenario) []*core.Scenario {
	var out []*core.Scenario
	if sc.Kind == "stream" {
		if len(sc.StdinChunks) > 0 {
			c := sc.Clone()
			c.StdinChunks = nil
			out = append(out, c)
		}
		if sc.StdoutFault != "" {
			c := sc.Clone()
			c.StdoutFault, c.StdoutLimit = "", 0
			out = append(out, c)
		}
		if len(sc.Stdin) > 64 {
			c := sc.Clone()
			c.Stdin, c.StdinChunks = sc.Stdin[len(sc.Stdin)/4:], nil
			out = append(out, c)
		}
		for _, s := range []string{"", "x", "x\n"} {
			if len(s) < len(sc.Stdin) {
				c := sc.Clone()
				c.Stdin, c.StdinChunks = s, nil
				out = append(out, c)
			}
		}
		return out
	}
	if len(sc.Faults) > 0 {
		c := sc.Clone()
		c.Faults = nil
		out = append(out, c)
	}
	return out
}

// Describe implements core.Driver.
func (d *D) Describe(ev *core.Evidence, st *core.Stats) {
	c := st.Counters
	ev.Coverage["rule"] = "one evaluation = one simulated run: either an accepted program under the simulated platform (L1) with an input script (possibly too short), an event history with adversarial payloads and possibly a stop at a seeded fault point, or the real `evy run` command on the real terminal platform with stdin delivered in seeded chunks and ending after any byte and a possibly failing stdout; the monitor requires an allowed end class (ok, Evy panic, exit, failed test, stopped only if a stop was raised), no internal error, no Go panic, a surviving worker process, and declared types for values that crossed the boundary; distinct by hash(program, inputs/stdin, events, faults)"
	ev.Coverage["l1_runs"] = c["l1_runs"]
	ev.Coverage["stream_runs"] = c["stream_runs"]
	ev.Coverage["l2_runs"] = c["l2_runs"]
	faults := map[string]int64{}
	ends := map[string]int64{}
	for k, v := range c { // copied into maps that json sorts
		if strings.HasPrefix(k, "fired:") {
			faults[strings.TrimPrefix(k, "fired:")] = v
		}
		if strings.HasPrefix(k, "end:") || strings.HasPrefix(k, "stream_status:") {
			ends[k] = v
		}
	}
	ev.Coverage["faults_injected"] = faults
	ev.Coverage["end_classes"] = ends
	ev.Coverage["probes"] = map[string]int64{"stream_runs_with_svg_platform": c["stream_runs_with_svg_platform"], "l2_runs": c["l2_runs"], "events_handled": c["events_handled"],
		"runtime_type_monitor_values_checked": c["typemon_checks"], "native_process_runs_of_graphics_edge_programs": c["native_process_runs"], "near_valid_programs_rejected": c["near_valid_programs_rejected"], "near_valid_programs_accepted_and_run": c["near_valid_programs_accepted_and_run"], "parser_crashes_seen_and_skipped(C03)": c["parser_crash_observed_outside_scope(C03)"], "programs_rejected_by_parser": c["programs_rejected_by_parser"],
		"eof_in_the_middle_of_a_line": c["fired:eof-in-the-middle-of-a-line"], "eof_before_first_byte": c["fired:eof-before-first-byte"]}
	ev.Coverage["simulated_time_s"] = float64(c["simulated_ns"]) / 1e9
	ev.Coverage["steps"] = c["steps"]
	ev.Coverage["components"] = map[string][]string{
		"real":                {"lexer", "parser", "evaluator", "builtins", "stream runs: kong, runCmd.Run, cli.Platform (bufio reader, writer)"},
		"real in the L2 runs": {"pkg/wasm glue incl. alloc/getString string marshalling of event payloads"},
		"stub":                {"L1: platform (SimPlatform) and event loop", "L2: the browser (simjs)", "stream runs: os.Stdin/Stdout/Stderr/ReadFile/Exit (simos)"}}
	if evaluator.SimTypeMonAvailable {
		ev.Coverage["runtime_type_monitor"] = "installed around Evaluator.eval by source rewriting: every expression value is checked against the static type of its node"
	} else {
		ev.Coverage["runtime_type_monitor"] = "UNAVAILABLE on this tree (Evaluator.eval or the value types are not in their usual shape); only the outcome monitor ran"
	}
	ev.Assumptions = []string{
		"scoped claim: type soundness over all programs is a statement about pure functions and is not decided here; this check decides the part of the quantifier that arrives through the platform boundary (inputs and their end, event payloads, sleeps, stop)",
		"events are delivered to registered handlers only, with the arity and Go types docs/builtins.md prescribes",
		"the workload stays away from three known pure-input crashes that need no fault or schedule (self-containing values, unbounded recursion, huge repetition counts)",
	}
}
