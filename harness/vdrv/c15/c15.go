// Package c15: events run their handlers in order, isolated, on shared globals.
//
// History = a sequence of events delivered after the top-level code.
// Reference model = the same evaluator calling procedures: every
// `on <name> <params>` header becomes `func evh<Name>ZQ9 <params>` on the same
// line and one call per delivered event is appended after the last line. The
// effect traces and final results of both runs must be equal.
package c15

import (
	"fmt"
	"strconv"
	"strings"

	"evylang.dev/evy/vdrv/core"
	"evylang.dev/evy/vdrv/work"
	"evylang.dev/evy/vsim/prng"
)

// D is the driver.
type D struct{}

func (d *D) Property() string { return "C15" }
func (d *D) Level() string    { return "exploration" }

const nonce = "ZQ9"

type tierCfg struct {
	items  int
	events int
	budget int
}

func cfg(tier string) tierCfg {
	if tier == "thorough" {
		return tierCfg{items: 600000, events: 40, budget: 400000}
	}
	return tierCfg{items: 2400, events: 40, budget: 200000}
}

func (d *D) Count(tier string) int { return cfg(tier).items }

// hand-written programs covering every accepted signature shape
var shaped = []string{
	"g := 0\ns := \"\"\non key k:string\n    g = g + 1\n    s = s + k\n    print \"key\" k g s\nend\non down x:num y:num\n    g = g + x\n    print \"down\" x y g\nend\non up _:num y:num\n    print \"up\" y g\nend\non move x:num _:num\n    print \"move\" x\nend\non animate t:num\n    print \"animate\" t (typeof t)\nend\non input id:string val:string\n    print \"input\" id val (len id) (len val)\nend\n",
	"n := 0\non key\n    n = n + 1\n    print \"key#\" n\nend\non down\n    print \"down#\" n\nend\non up\n    n = 0\nend\non move\n    n = n - 1\nend\non animate\n    print \"frame\" n\nend\non input\n    print \"input\" n\nend\n",
	"m:{}any\narr := [1 2 3]\non key k:string\n    m[k] = (len arr)\n    arr = arr + [(len m)]\n    print m arr\nend\non input _:string v:string\n    m.last = v\n    print m\nend\non down _:num _:num\n    arr := [\"shadow\"]\n    print arr m\nend\n",
	"x := 1\non key k:string\n    x := k + \"!\"\n    print x\nend\non down a:num b:num\n    if a > b\n        return\n    end\n    x = x + 1\n    print x a b (a == b) (a != a)\nend\n",
	"total := 0\non animate t:num\n    total = total + t\n    print t total (t > 0) (t < 0) (t == t)\n    if total > 100\n        exit 3\n    end\nend\non key k:string\n    if k == \"Enter\"\n        panic \"enter pressed\"\n    end\n    n := str2num k\n    print n err errmsg\nend\n",
	"func show v:any\n    print (typeof v) v\nend\non key k:string\n    show k\n    show (k + k)\n    for c := range k\n        show c\n    end\nend\non move x:num y:num\n    show x\n    show [x y]\n    show {x:x y:y}\nend\n",
	"s := read\nprint \"got\" s\non key k:string\n    t := read\n    print k t\n    sleep 0.1\n    print \"slept\"\nend\n",
	"c := 0\non down _:num _:num\n    c = c + 1\n    print \"down\" c\nend\non up x:num _:num\n    c = c + 1\n    print \"up\" x c\nend\non move _:num y:num\n    c = c + 1\n    print \"move\" y c\nend\non input _:string _:string\n    print \"input\" c\nend\n",
}

// Base builds item idx.
func (d *D) Base(idx int, ctx *core.Ctx) *core.Scenario {
	c := cfg(ctx.Tier)
	r := core.ItemRNG(ctx.Seed, "C15", idx)
	var sc *core.Scenario
	switch {
	case idx%12 == 0:
		p := shaped[(idx/12)%len(shaped)]
		sc = &core.Scenario{Property: "C15", Seed: ctx.Seed, Index: idx, Level: "L1", Kind: "shaped", Program: p, RandSeed: int64(1 + r.Intn(99)), ReplayExact: true}
		sc.Inputs = work.Inputs(r, r.Intn(6))
	case idx%12 == 1:
		files := work.Corpus(ctx.Corpus)
		var hs []work.CorpusFile
		for _, f := range files {
			if len(work.HandlerNames(f.Text)) > 0 {
				hs = append(hs, f)
			}
		}
		if len(hs) == 0 {
			return nil
		}
		sc = work.FromCorpus(r, hs[r.Intn(len(hs))], "C15", ctx.Seed, idx)
	default:
		o := work.SwarmOpts(r)
		o.Handlers, o.Tests, o.Endless, o.Unused, o.NearMiss = true, false, false, false, false
		o.Stmts = r.Range(1, 8)
		sc = work.Generated(r, o, "C15", ctx.Seed, idx)
	}
	sc.NoTestSummary = true
	hs := work.HandlerNames(sc.Program)
	sc.Events = work.Events(r, hs, c.events)
	return sc
}

// Regen implements core.Driver.
func (d *D) Regen(idx int, ctx *core.Ctx) *core.Scenario { return d.Base(idx, ctx) }

func numLit(s string) string {
	v := core.ParseNum(s)
	switch {
	case v != v:
		return "(0/0)"
	case v > 1.7976931348623157e308:
		return "(1/0)"
	case v < -1.7976931348623157e308:
		return "(-1/0)"
	case v == 0 && s == "-0":
		return "(-0)"
	case v < 0:
		return "(" + strconv.FormatFloat(v, 'f', -1, 64) + ")"
	}
	return strconv.FormatFloat(v, 'f', -1, 64)
}

type hdr struct {
	name    string
	nparams int
	fn      string
}

// Reference derives P′ from P and the delivered events. ok=false means the
// derivation is not possible for this program (counted, never reported).
func Reference(src string, events []core.Event) (string, bool) {
	if strings.Contains(src, nonce) {
		return "", false
	}
	lines := strings.Split(strings.TrimRight(src, "\n"), "\n")
	hs := map[string]*hdr{}
	for i, l := range lines {
		if !strings.HasPrefix(l, "on ") {
			continue
		}
		code := l
		if j := strings.Index(code, "//"); j >= 0 {
			code = code[:j]
		}
		f := strings.Fields(code)
		if len(f) < 2 {
			return "", false
		}
		name := f[1]
		h := &hdr{name: name, nparams: len(f) - 2, fn: "evh" + strings.ToUpper(name[:1]) + name[1:] + nonce}
		if hs[name] != nil {
			return "", false
		}
		hs[name] = h
		// same line, same length of the remainder: every body position is unchanged
		lines[i] = "func " + h.fn + l[len("on "+name):]
	}
	var b strings.Builder
	b.WriteString(strings.Join(lines, "\n"))
	b.WriteString("\n")
	for _, e := range events {
		h := hs[e.Name]
		if h == nil {
			continue
		}
		b.WriteString(h.fn)
		if h.nparams > 0 {
			for _, n := range e.Num {
				b.WriteString(" " + numLit(n))
			}
			for _, s := range e.Str {
				b.WriteString(" " + strconv.Quote(s))
			}
		}
		b.WriteString("\n")
	}
	return b.String(), true
}

func skipReason(sc *core.Scenario) string {
	if strings.Contains(sc.Program, "test ") || strings.Contains(sc.Program, "test\n") {
		return "uses_test" // summaries/failures are reported at different moments in the two forms
	}
	return ""
}

// check runs both forms. notes reports why a scenario was discarded.
func check(sc *core.Scenario, budget int) (v *core.Violation, note string, a, b *core.Result) {
	if r := skipReason(sc); r != "" {
		return nil, r, nil, nil
	}
	a = core.RunL1(sc, core.L1Opts{Budget: budget})
	if !a.Accepted {
		return nil, "rejected_by_parser", a, nil
	}
	if a.EndClass == core.EndHostPanic || a.EndClass == core.EndInternal {
		return nil, "host_panic_or_internal(C02)", a, nil
	}
	// the reference gets exactly the events that were dispatched: the lines the
	// run received are the input script of both forms
	refSrc, ok := Reference(sc.Program, sc.Events)
	if !ok {
		return nil, "no_reference_derivable", a, nil
	}
	ref := sc.Clone()
	ref.Program = refSrc
	ref.Events = nil
	b = core.RunL1(ref, core.L1Opts{Budget: budget})
	if !b.Accepted {
		return nil, "reference_rejected_by_parser", a, b
	}
	if a.P.RaisedByBudget || b.P.RaisedByBudget {
		return nil, "over_budget", a, b
	}
	if b.EndClass == core.EndHostPanic || b.EndClass == core.EndInternal {
		return nil, "host_panic_or_internal(C02)", a, b
	}
	ta, tb := a.Trace(), b.Trace()
	if ta == tb {
		return nil, "", a, b
	}
	la, lb := strings.Split(ta, "\n"), strings.Split(tb, "\n")
	i := 0
	for i < len(la) && i < len(lb) && la[i] == lb[i] {
		i++
	}
	get := func(l []string, i int) string {
		if i < len(l) {
			return l[i]
		}
		return "<nothing>"
	}
	kind := "effects"
	if strings.HasPrefix(get(la, i), "end ") || strings.HasPrefix(get(lb, i), "end ") {
		kind = "result"
	}
	return &core.Violation{Oracle: "O1-handlers-equal-procedures", Signature: "O1:" + kind,
		Expected: "the effects and final result of delivering the events equal those of calling equivalent procedures in the same order",
		Observed: map[string]any{"first_difference_at_line": i, "with_handlers": get(la, i), "with_procedures": get(lb, i),
			"events_handled": a.EventsDone, "reference_program": refSrc},
		Match: map[string]string{"oracle": "O1", "kind": kind}}, "", a, b
}

// RunItem checks one (program, history) pair.
func (d *D) RunItem(idx int, ctx *core.Ctx) {
	c := cfg(ctx.Tier)
	if idx%5 == 2 {
		d.runL2Item(idx, ctx)
		return
	}
	sc := d.Base(idx, ctx)
	if sc == nil {
		return
	}
	sc.Tier = ctx.Tier
	v, note, a, _ := check(sc, c.budget)
	ctx.Inc("evaluations", 2)
	if note != "" {
		ctx.Inc("discarded:"+note, 1)
		return
	}
	ctx.Inc("pairs_compared", 1)
	ctx.Inc("events_delivered", int64(a.EventsDone))
	ctx.Inc("simulated_ns", a.P.NowNs)
	ctx.Inc("steps", int64(a.P.Yields))
	ctx.Inc("end:"+strings.SplitN(a.EndClass, ":", 2)[0], 1)
	if a.EventsDone > 0 {
		var sig []string
		for _, e := range sc.Events {
			sig = append(sig, e.Name)
		}
		h := prng.HashString(sc.Program + "\x00" + strings.Join(sig, ",") + fmt.Sprint(sc.Events))
		ctx.Distinct(h)
		ctx.Sched(prng.HashString(strings.Join(sig, ",")))
	}
	if strings.Contains(sc.Program, " _:") && a.EventsDone > 0 {
		ctx.Inc("probe_underscore_param_handler_ran", 1)
	}
	for _, l := range strings.Split(sc.Program, "\n") {
		if strings.HasPrefix(l, "on ") && len(strings.Fields(l)) == 2 && a.EventsDone > 0 {
			ctx.Inc("probe_parameterless_handler_present", 1)
			break
		}
	}
	if strings.Contains(sc.Program, "\"shadow\"") && a.EventsDone > 0 {
		ctx.Inc("probe_handler_shadows_global", 1)
	}
	if a.EndClass != core.EndOK && a.EventsDone > 0 {
		ctx.Inc("probe_run_ended_inside_a_handler", 1)
	}
	if v != nil {
		ctx.Violate(sc, v)
	}
	if len(ctx.St.Samples) < 3 && a.EventsDone > 2 && len(sc.Program) < 700 {
		ctx.Sample(map[string]any{"program": sc.Program, "events": sc.Events, "inputs": sc.Inputs, "events_handled": a.EventsDone, "effects": len(a.P.Effects), "end": a.EndClass}, 3)
	}
}

// Check re-executes one scenario.
func (d *D) Check(sc *core.Scenario) *core.Violation {
	if sc.Level == "L2" {
		v, _, _ := checkL2(sc)
		return v
	}
	v, _, _, _ := check(sc, cfg(sc.Tier).budget)
	return v
}

// Describe adds the property-specific evidence.
func (d *D) Describe(ev *core.Evidence, st *core.Stats) {
	c := st.Counters
	ev.Coverage["rule"] = "one case = (program with handlers, inputs, rand seed, event history of 0..40 events with payloads from pools incl. NaN, ±Inf, -0, huge, empty and non-ASCII strings); two evaluations per case (handler form under the simulated event loop, procedure form); non-trivial = at least one event was handled; distinct by hash(program, event names and payloads); distinct_schedules = distinct event-name sequences"
	ev.Coverage["pairs_compared"] = c["pairs_compared"]
	ev.Coverage["events_delivered"] = c["events_delivered"]
	disc := map[string]int64{}
	for k, v := range c { // copied into a map that json sorts
		if strings.HasPrefix(k, "discarded:") {
			disc[strings.TrimPrefix(k, "discarded:")] = v
		}
	}
	ev.Coverage["discarded"] = disc
	ev.Coverage["l2"] = map[string]int64{"pairs_compared": c["l2_pairs_compared"], "event_arrived_while_busy": c["probe_l2_event_arrived_while_busy"],
		"event_dropped_before_registration": c["probe_l2_event_dropped_before_registration"], "animation_frames": c["probe_l2_animation_frames"]}
	ev.Coverage["probes"] = map[string]int64{"underscore_param_handler_ran": c["probe_underscore_param_handler_ran"], "parameterless_handler_present": c["probe_parameterless_handler_present"],
		"handler_shadows_global": c["probe_handler_shadows_global"], "run_ended_inside_a_handler": c["probe_run_ended_inside_a_handler"]}
	ev.Coverage["faults_injected"] = map[string]int64{}
	ev.Coverage["simulated_time_s"] = float64(c["simulated_ns"]) / 1e9
	ev.Coverage["steps"] = c["steps"]
	ev.Coverage["components"] = map[string][]string{"real": {"lexer", "parser", "evaluator (HandleEvent, scopes, valueFromAny)", "builtins"}, "real at L2 only": {"pkg/wasm: event queue, on* exports, handleEvents, alloc/getString string marshalling, jsPlatform, sleepingYielder"},
		"stub": {"L1: platform (SimPlatform) and event loop (driver mirrors pkg/wasm handleEvents: one event at a time, registered handlers only)", "L2: the browser / JS side (simjs model of frontend/play/index.js: listeners, requestAnimationFrame, read box, Stop button)"}}
	ev.Assumptions = []string{
		"fault-free configuration: no stop is injected here (C14 covers interruption); events are delivered one at a time to registered handlers only, as the page does",
		"programs using `test` are excluded: summaries and failures are reported at different moments in the two forms",
		"the procedure form is derived textually (same line, renamed header); programs for which that is impossible are discarded and counted",
	}
	for _, k := range []string{"probe_underscore_param_handler_ran", "probe_parameterless_handler_present", "probe_handler_shadows_global", "probe_run_ended_inside_a_handler"} {
		if c[k] == 0 {
			ev.Assumptions = append(ev.Assumptions, "WARNING: probe "+k+" stayed at zero in this run")
		}
	}
}
