package c15

import (
	"fmt"
	"strings"

	"evylang.dev/evy/vdrv/core"
	"evylang.dev/evy/vdrv/l2"
	"evylang.dev/evy/vsim/prng"
)

// L2: the real event queue and handleEvents loop of pkg/wasm under the
// simulated browser. Events arrive at seeded virtual times (while idle, while
// a handler runs, sleeps or waits in read, in bursts, between animation
// frames). The reference is the procedure form of the program, called in the
// order in which the browser called the on* exports, run under L2 as well.

func l2Opts() l2.Opts {
	return l2.Opts{StopWhenIdle: true, AutoType: true, RelativeToReg: true, MaxVirtualNs: 90_000_000_000, MaxSteps: 2_000_000}
}

// l2OptsFor: one scenario in five uses absolute arrival times, so that events can
// arrive before the handlers are registered (the page drops those; the reference
// is built from the events that were actually delivered).
func l2OptsFor(sc *core.Scenario) l2.Opts {
	o := l2Opts()
	if sc.Index%5 == 2 && (sc.Index/5)%5 == 0 {
		o.RelativeToReg = false
	}
	return o
}

func checkL2(sc *core.Scenario) (v *core.Violation, note string, a *l2.Result) {
	if r := skipReason(sc); r != "" {
		return nil, r, nil
	}
	a = l2.Run(sc, l2OptsFor(sc))
	if len(a.Errors) > 0 && len(a.Effects) == 0 && len(a.Calls) == 0 {
		return nil, "rejected_or_failed_at_once", a
	}
	if a.HostPanic != "" {
		return nil, "host_panic(C02)", a
	}
	if a.Aborted != "" || a.StopDuring == "timeout" || a.StopDuring == "step-budget" {
		return nil, "over_budget", a
	}
	obsBase := map[string]any{"events_delivered_by_browser": len(a.Calls), "dropped_before_registration": a.Dropped, "arrived_while_busy": a.ArrivedWhileBusy}
	// bounded liveness: the scenario ended idle, so every delivered event was handled
	if a.StopClicked && a.IdleAtStop && a.QueueAtEnd != 0 {
		obsBase["queue_length_at_end"] = a.QueueAtEnd
		return &core.Violation{Oracle: "O2-every-delivered-event-handled", Signature: "L2:O2:queue-not-empty",
			Expected: "when the system is idle every delivered event has been handled", Observed: obsBase, Match: map[string]string{"oracle": "L2-O2"}}, "", a
	}
	refSrc, ok := Reference(sc.Program, a.Calls)
	if !ok {
		return nil, "no_reference_derivable", a
	}
	ref := sc.Clone()
	ref.Program = refSrc
	ref.Events = nil
	ref.Inputs = append([]string(nil), a.LinesRead...)
	// lines the handler form did not consume must not be offered to the reference either
	b := l2.Run(ref, l2Opts())
	if b.HostPanic != "" || b.Aborted != "" || b.StopDuring == "timeout" || b.StopDuring == "step-budget" {
		return nil, "reference_over_budget_or_panic", a
	}
	if len(b.Errors) > 0 && len(b.Effects) == 0 && len(a.Effects) > 0 && strings.Contains(strings.Join(b.Errors, "\n"), "line ") && !strings.Contains(strings.Join(a.Errors, "\n"), b.Errors[0]) {
		// the procedure form was rejected by the parser
		if isParseReject(b) {
			return nil, "reference_rejected_by_parser", a
		}
	}
	ta, tb := a.Trace(), b.Trace()
	if ta == tb {
		return nil, "", a
	}
	la, lb := strings.Split(ta, "\n"), strings.Split(tb, "\n")
	i := 0
	for i < len(la) && i < len(lb) && la[i] == lb[i] {
		i++
	}
	get := func(l []string, i int) string {
		if i < len(l) {
			return l[i]
		}
		return "<nothing>"
	}
	obsBase["first_difference_at_line"] = i
	obsBase["with_handlers"] = get(la, i)
	obsBase["with_procedures"] = get(lb, i)
	obsBase["reference_program"] = refSrc
	var order []string
	for _, c := range a.Calls {
		order = append(order, c.Name)
	}
	obsBase["delivery_order"] = strings.Join(order, ",")
	return &core.Violation{Oracle: "O1-handlers-equal-procedures", Signature: "L2:O1",
		Expected: "the effects of the events delivered by the browser, in delivery order, equal those of calling equivalent procedures in that order (each exactly once)",
		Observed: obsBase, Match: map[string]string{"oracle": "L2-O1"}}, "", a
}

func isParseReject(b *l2.Result) bool {
	return len(b.Registered) == 0 && b.PrepareUI == ""
}

func (d *D) runL2Item(idx int, ctx *core.Ctx) {
	sc := d.Base(idx, ctx)
	if sc == nil {
		return
	}
	sc.Tier = ctx.Tier
	sc.Level = "L2"
	r := core.ItemRNG(ctx.Seed, "C15-l2", idx)
	if idx%50 == 7 {
		// a flood: many hundreds of events arrive while one handler sleeps (a pointer dragged across
		// the canvas while a slow handler runs); every one of them is handled afterwards, in order
		n := []int{300, 600, 700, 1500}[r.Intn(4)]
		sc.Program = "total := 0\nlast := \"\"\non move x:num y:num\n    if total == 0\n        sleep 0.5\n    end\n    total = total + 1\n    last = sprint x y\nend\non key k:string\n    print \"key\" k total last\nend\non down x:num y:num\n    print \"down\" x y total last\nend\n"
		sc.Inputs = nil
		sc.Events = []core.Event{{Name: "move", Num: []string{"0", "0"}}}
		for i := 1; i <= n; i++ {
			e := core.Event{Name: "move", Num: []string{fmt.Sprint(i % 100), fmt.Sprint((i * 7) % 100)}}
			if i%97 == 0 {
				e = core.Event{Name: "key", Str: []string{[]string{"q", "Enter", "é"}[i%3]}}
			}
			sc.Events = append(sc.Events, e)
		}
		sc.Events = append(sc.Events, core.Event{Name: "down", Num: []string{"1", "2"}})
		sc.Kind = "l2:flood"
		for i := range sc.Events {
			sc.Events[i].AtNs = 1_000_000 + int64(i)*300_000 // all within the first handler's half second
		}
		sc.Events[len(sc.Events)-1].AtNs = 2_000_000_000
		sc.Schedule.ClockCostNs = 5_000
		v, note, a := checkL2(sc)
		ctx.Inc("evaluations", 2)
		if note != "" {
			ctx.Inc("discarded:l2:"+note, 1)
			return
		}
		ctx.Inc("l2_pairs_compared", 1)
		ctx.Inc("pairs_compared", 1)
		ctx.Inc("l2_flood_scenarios", 1)
		ctx.Inc("events_delivered", int64(len(a.Calls)))
		ctx.Inc("probe_l2_event_arrived_while_busy", int64(a.ArrivedWhileBusy))
		if v != nil {
			ctx.Violate(sc, v)
		}
		return
	}
	// arrival times: bursts, gaps longer than a handler's sleep, and everything in between
	var t int64
	for i := range sc.Events {
		switch r.Intn(4) {
		case 0:
			t += int64(r.Intn(3)) * 100_000 // burst
		case 1:
			t += int64(r.Intn(50)) * 1_000_000
		case 2:
			t += int64(r.Intn(600)) * 1_000_000 // longer than most sleeps
		default:
			t += int64(r.Intn(20)) * 10_000
		}
		sc.Events[i].AtNs = t
	}
	sc.Schedule.ClockCostNs = int64([]int{5_000, 20_000, 100_000, 500_000}[r.Intn(4)])
	v, note, a := checkL2(sc)
	ctx.Inc("evaluations", 2)
	if note != "" {
		ctx.Inc("discarded:l2:"+note, 1)
		return
	}
	ctx.Inc("l2_pairs_compared", 1)
	ctx.Inc("pairs_compared", 1)
	ctx.Inc("events_delivered", int64(len(a.Calls)))
	ctx.Inc("simulated_ns", a.EndNs)
	ctx.Inc("steps", a.Steps)
	ctx.Inc("probe_l2_event_arrived_while_busy", int64(a.ArrivedWhileBusy))
	ctx.Inc("probe_l2_event_dropped_before_registration", int64(a.Dropped))
	for _, c := range a.Calls {
		if c.Name == "animate" {
			ctx.Inc("probe_l2_animation_frames", 1)
		}
	}
	if len(a.Calls) > 0 {
		var sig []string
		for _, c := range a.Calls {
			sig = append(sig, c.Name)
		}
		ctx.Distinct(prng.HashString("l2" + sc.Program + fmt.Sprint(sc.Events)))
		ctx.Sched(prng.HashString(fmt.Sprint(sig, a.ArrivedWhileBusy, sc.Schedule.ClockCostNs)))
	}
	if v != nil {
		ctx.Violate(sc, v)
	}
}
