// Package plat is SimPlatform: evaluator.Platform + Yielder under the
// simulator's control (level L1). Every platform call is recorded as an
// effect; every Yield, Sleep and Read poll is a numbered fault point at which
// the schedule may raise the stop flag.
package plat

import (
	"sort"
	"strconv"
	"strings"
	"time"

	"evylang.dev/evy/pkg/evaluator"
)

// Fault-point kinds.
const (
	FPYield = iota
	FPSleep
	FPRead
	FPIdle
	nFPKinds
)

// FPKindNames names the fault-point kinds.
var FPKindNames = [nFPKinds]string{"yield", "sleep", "read", "idle"}

// Sim is the simulated platform.
type Sim struct {
	Ev *evaluator.Evaluator

	Effects  []string
	EffYield []int // number of Yield calls seen when the effect happened
	EffFP    []int // number of fault points seen when the effect happened

	Inputs     []string
	InDelay    []int // polls before input i becomes available
	InPos      int
	ReadGot    []string // what each read returned
	NowNs      int64
	Yields     int
	FPs        int
	FPByKind   [nFPKinds]int
	StopAt     int // raise the flag inside fault point number StopAt (1-based); 0 = never
	Budget     int // auto-stop when this many fault points have passed (0 = none)
	MaxEffects int

	Raised           bool
	RaisedAtFP       int
	RaisedKind       int
	RaisedAtEffect   int // len(Effects) at the raise
	RaisedByBudget   bool
	RaisedByBlocked  bool
	YieldsAfterRaise int
	FPsAfterRaise    int
	InHandler        bool
	RaisedInHandler  bool
	MaxReadPolls     int
}

// New returns a platform with the given input script.
func New(inputs []string) *Sim {
	return &Sim{Inputs: inputs, MaxReadPolls: 3, MaxEffects: 200000}
}

func (s *Sim) raise(kind int) {
	if s.Raised {
		return
	}
	s.Raised = true
	s.RaisedAtFP = s.FPs
	s.RaisedKind = kind
	s.RaisedAtEffect = len(s.Effects)
	s.RaisedInHandler = s.InHandler
	if s.Ev != nil {
		s.Ev.Stopped = true
	}
}

// faultPoint is called with control in the platform's hands.
func (s *Sim) faultPoint(kind int) {
	if s.Raised {
		s.FPsAfterRaise++
		return
	}
	s.FPs++
	s.FPByKind[kind]++
	if s.StopAt != 0 && s.FPs == s.StopAt {
		s.raise(kind)
		return
	}
	if s.Budget != 0 && s.FPs >= s.Budget {
		s.RaisedByBudget = true
		s.raise(kind)
	}
}

// Idle is a fault point between top-level code and events / between events.
func (s *Sim) Idle() { s.faultPoint(FPIdle) }

// Yield implements evaluator.Yielder.
func (s *Sim) Yield() {
	if s.Raised {
		s.YieldsAfterRaise++
		s.FPsAfterRaise++
		return
	}
	s.Yields++
	s.faultPoint(FPYield)
}

// Yielder implements evaluator.Platform.
func (s *Sim) Yielder() evaluator.Yielder { return s }

func (s *Sim) eff(e string) {
	if len(s.Effects) >= s.MaxEffects {
		// runaway output: treat like the budget
		s.RaisedByBudget = true
		s.raise(FPYield)
	}
	s.Effects = append(s.Effects, e)
	s.EffYield = append(s.EffYield, s.Yields)
	s.EffFP = append(s.EffFP, s.FPs)
}

func fnum(v float64) string { return strconv.FormatFloat(v, 'g', -1, 64) }

// Print implements evaluator.Platform.
func (s *Sim) Print(t string) { s.eff("print " + strconv.Quote(t)) }

// Cls implements evaluator.Platform.
func (s *Sim) Cls() { s.eff("cls") }

// Sleep implements evaluator.Platform.
func (s *Sim) Sleep(d time.Duration) {
	s.eff("sleep " + strconv.FormatInt(int64(d), 10))
	if d > 0 && int64(d) < 1<<50 {
		s.NowNs += int64(d)
	}
	s.faultPoint(FPSleep)
}

// Read implements evaluator.Platform: like the browser it polls until a line
// is available or the run is stopped.
func (s *Sim) Read() string {
	s.eff("read")
	polls := 0
	for {
		if s.Ev != nil && s.Ev.Stopped {
			s.ReadGot = append(s.ReadGot, "")
			return ""
		}
		if s.InPos < len(s.Inputs) {
			delay := 0
			if s.InPos < len(s.InDelay) {
				delay = s.InDelay[s.InPos]
			}
			if polls >= delay {
				// the line is there: returned without giving up control, as in the browser
				l := s.Inputs[s.InPos]
				s.InPos++
				s.ReadGot = append(s.ReadGot, l)
				return l
			}
		}
		s.faultPoint(FPRead)
		s.NowNs += int64(50 * time.Millisecond)
		polls++
		if s.InPos >= len(s.Inputs) && polls >= s.MaxReadPolls && !s.Raised {
			// nobody will ever type: the user presses Stop
			s.RaisedByBlocked = true
			s.raise(FPRead)
		}
	}
}

func (s *Sim) Move(x, y float64)         { s.eff("move " + fnum(x) + " " + fnum(y)) }
func (s *Sim) Line(x, y float64)         { s.eff("line " + fnum(x) + " " + fnum(y)) }
func (s *Sim) Rect(x, y float64)         { s.eff("rect " + fnum(x) + " " + fnum(y)) }
func (s *Sim) Circle(r float64)          { s.eff("circle " + fnum(r)) }
func (s *Sim) Width(w float64)           { s.eff("width " + fnum(w)) }
func (s *Sim) Color(c string)            { s.eff("color " + strconv.Quote(c)) }
func (s *Sim) Clear(c string)            { s.eff("clear " + strconv.Quote(c)) }
func (s *Sim) Stroke(c string)           { s.eff("stroke " + strconv.Quote(c)) }
func (s *Sim) Fill(c string)             { s.eff("fill " + strconv.Quote(c)) }
func (s *Sim) Linecap(c string)          { s.eff("linecap " + strconv.Quote(c)) }
func (s *Sim) Text(c string)             { s.eff("text " + strconv.Quote(c)) }
func (s *Sim) Gridn(u float64, c string) { s.eff("gridn " + fnum(u) + " " + strconv.Quote(c)) }

func (s *Sim) Poly(vs [][]float64) {
	var b strings.Builder
	b.WriteString("poly")
	for _, v := range vs {
		b.WriteString(" [")
		for i, x := range v {
			if i > 0 {
				b.WriteByte(' ')
			}
			b.WriteString(fnum(x))
		}
		b.WriteString("]")
	}
	s.eff(b.String())
}

func (s *Sim) Ellipse(x, y, rx, ry, rot, a0, a1 float64) {
	s.eff("ellipse " + fnum(x) + " " + fnum(y) + " " + fnum(rx) + " " + fnum(ry) + " " + fnum(rot) + " " + fnum(a0) + " " + fnum(a1))
}

func (s *Sim) Dash(segs []float64) {
	var b strings.Builder
	b.WriteString("dash")
	for _, x := range segs {
		b.WriteByte(' ')
		b.WriteString(fnum(x))
	}
	s.eff(b.String())
}

// Font records the properties sorted by key (the platform receives a Go map).
func (s *Sim) Font(props map[string]any) {
	keys := make([]string, 0, len(props))
	for k := range props { // sorted below: order cannot leak
		keys = append(keys, k)
	}
	sort.Strings(keys)
	var b strings.Builder
	b.WriteString("font")
	for _, k := range keys {
		b.WriteByte(' ')
		b.WriteString(k)
		b.WriteByte('=')
		switch v := props[k].(type) {
		case string:
			b.WriteString(strconv.Quote(v))
		case float64:
			b.WriteString(fnum(v))
		default:
			b.WriteString("?")
		}
	}
	s.eff(b.String())
}
