// drv is the driver binary for the properties that live in the evy module.
package main

import (
	"evylang.dev/evy/vdrv/c02"
	"evylang.dev/evy/vdrv/c08"
	_ "evylang.dev/evy/vdrv/c08l2"
	"evylang.dev/evy/vdrv/c14"
	"evylang.dev/evy/vdrv/c15"
	"evylang.dev/evy/vdrv/c18"
	"evylang.dev/evy/vdrv/core"
)

func driver(prop string) core.Driver {
	switch prop {
	case "C02":
		return &c02.D{}
	case "C14":
		return &c14.D{}
	case "C08":
		return &c08.D{}
	case "C15":
		return &c15.D{}
	case "C18":
		return &c18.D{}
	}
	return nil
}

func main() {
	core.Main(driver, func(sc *core.Scenario, n int) string { return c08.Observe(sc, n, 6000) })
}
