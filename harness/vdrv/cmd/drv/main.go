package main

func main() {}
