// l2dbg runs one program under the simulated browser (development aid).
package main

import (
	"fmt"
	"os"

	"evylang.dev/evy/vdrv/core"
	"evylang.dev/evy/vdrv/l2"
)

func main() {
	src, _ := os.ReadFile(os.Args[1])
	sc := &core.Scenario{Program: string(src), RandSeed: 1, Inputs: []string{"hello", "world"}}
	sc.Events = []core.Event{
		{Name: "key", Str: []string{"a"}, AtNs: 5e6}, {Name: "key", Str: []string{"é"}, AtNs: 6e6},
		{Name: "down", Num: []string{"1", "2"}, AtNs: 7e6}, {Name: "key", Str: []string{""}, AtNs: 300e6},
	}
	r := l2.Run(sc, l2.Opts{StopWhenIdle: true, AutoType: true, RelativeToReg: true})
	fmt.Print(r.Trace())
	fmt.Printf("calls=%v\nregistered=%v ui=%q errors=%v\nafterStop=%v stopClicked=%v during=%s idle=%v queue=%d steps=%d end=%dms dropped=%d busy=%d panic=%q aborted=%q importsAfterStop=%v\n",
		r.Calls, r.Registered, r.PrepareUI, r.Errors, r.AfterStop, r.StopClicked, r.StopDuring, r.IdleAtStop, r.QueueAtEnd, r.Steps, r.EndNs/1e6, r.Dropped, r.ArrivedWhileBusy, r.HostPanic, r.Aborted, r.ImportsAfterStop)
}
