// drvplain is built against the UNrewritten tree: it runs a scenario natively
// (Go's own map randomisation is the schedule) and prints its observables.
package main

import (
	"flag"
	"fmt"
	"os"

	"evylang.dev/evy/vdrv/c08"
	"evylang.dev/evy/vdrv/core"
)

func main() {
	observe := flag.String("observe", "", "scenario file")
	repeat := flag.Int("repeat", 1, "repetitions")
	budget := flag.Int("budget", 6000, "fault-point budget of each run (must be the one the caller used)")
	flag.Parse()
	sc, err := core.Load(*observe)
	if err != nil {
		fmt.Fprintln(os.Stderr, err)
		os.Exit(2)
	}
	fmt.Print(c08.Observe(sc, *repeat, *budget))
}
