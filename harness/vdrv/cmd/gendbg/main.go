// gendbg measures the generator's acceptance rate (development aid).
package main

import (
	"flag"
	"fmt"
	"strings"

	"evylang.dev/evy/vdrv/core"
	"evylang.dev/evy/vdrv/work"
	"evylang.dev/evy/vsim/prng"
)

func main() {
	n := flag.Int("n", 300, "programs")
	show := flag.Int("show", 3, "rejected programs to show")
	showOK := flag.Int("showok", 0, "accepted programs to show")
	anywrap := flag.Bool("anywrap", false, "measure the any-wrapping family instead of the generator")
	flag.Parse()
	acc, ends := 0, map[string]int{}
	errs := map[string]int{}
	for i := 0; i < *n; i++ {
		r := prng.Derive(7, uint64(i))
		sc := work.Generated(r, work.SwarmOpts(r), "X", 7, i)
		if *anywrap {
			sc.Program, sc.Events, sc.Inputs = work.AnyWrap(r), nil, nil
		}
		res := core.RunL1(sc, core.L1Opts{Budget: 20000})
		if res.Accepted {
			acc++
			ends[strings.SplitN(res.EndClass, ":", 2)[0]]++
			if *showOK > 0 {
				*showOK--
				fmt.Println("---- accepted:\n" + sc.Program + "---- trace:\n" + res.Trace())
			}
			if res.EndClass == core.EndHostPanic || res.EndClass == core.EndInternal {
				fmt.Println("---- BAD END", res.EndClass, res.EndMsg, res.TopFrame, "\n"+sc.Program)
			}
			continue
		}
		first := strings.SplitN(res.ParseErr, "\n", 2)[0]
		if i := strings.Index(first, ": "); i > 0 {
			first = first[i+2:]
		}
		for _, w := range strings.Fields(first) {
			if strings.ContainsAny(w, "0123456789\"") {
				first = strings.ReplaceAll(first, w, "_")
			}
		}
		errs[first]++
		if *show > 0 {
			*show--
			fmt.Println("---- rejected:", res.ParseErr, "\n"+sc.Program)
		}
	}
	fmt.Printf("accepted %d/%d ends=%v\n", acc, *n, ends)
	for k, v := range errs {
		fmt.Printf("%5d %s\n", v, k)
	}
}
