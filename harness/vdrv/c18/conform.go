package c18

import (
	"bytes"
	"fmt"
	"os"
	"os/exec"
	"path/filepath"
	"strings"
	"syscall"
	"time"

	"evylang.dev/evy/vdrv/core"
	"evylang.dev/evy/vsim/prng"
	"evylang.dev/evy/vsim/simos"
)

// The conformance layer runs the real evy binary (built from the unrewritten
// copy of the tree) under strace, injecting errors and SIGKILL at real
// system-call boundaries. Whatever was injected, the invariants on the
// directory must hold; the fault-free run must agree with the in-process run
// (this validates the exit-status stub and simos's picture of the kernel).

var straceOK = -1

func haveStrace() bool {
	if straceOK >= 0 {
		return straceOK == 1
	}
	straceOK = 0
	if _, err := exec.LookPath("strace"); err != nil {
		return false
	}
	out, err := exec.Command("strace", "-f", "-o", "/dev/null", "-e", "trace=write", "-e", "inject=write:error=ENOSPC:when=60000", "true").CombinedOutput()
	if err == nil && !bytes.Contains(out, []byte("Operation not permitted")) {
		straceOK = 1
	}
	return straceOK == 1
}

var injectCalls = []string{"openat", "write", "close", "renameat", "fchmod", "fchmodat", "newfstatat", "read", "unlinkat"}
var injectErr = []string{"ENOSPC", "EIO", "EACCES"}

type realRun struct {
	status  int
	killed  bool
	hit     bool
	stderr  string
	files   []fileState
	logTail string
	log     string
}

func (d *D) runReal(sc *core.Scenario, inject string) *realRun {
	core.HeartbeatNow()
	d.runN++
	dir := filepath.Join(d.workdir(), fmt.Sprintf("s%d", d.runN%64))
	os.RemoveAll(dir)       //nolint:errcheck
	os.MkdirAll(dir, 0o755) //nolint:errcheck
	for _, f := range sc.Files {
		p := filepath.Join(dir, f.Name)
		os.MkdirAll(filepath.Dir(p), 0o755)       //nolint:errcheck
		os.WriteFile(p, []byte(f.Content), 0o600) //nolint:errcheck
		os.Chmod(p, os.FileMode(f.Mode))          //nolint:errcheck
	}
	bin := filepath.Join(core.ScratchDir, "bin", "evy")
	logf := filepath.Join(d.workdir(), fmt.Sprintf("strace-%d.log", d.runN%64))
	os.Remove(logf) //nolint:errcheck
	args := []string{"-f", "-o", logf, "-e", "trace=" + strings.Join(injectCalls, ",")}
	if inject != "" {
		args = append(args, "-e", "inject="+inject)
	}
	args = append(args, bin)
	for _, a := range sc.Argv {
		args = append(args, strings.Replace(a, "@ABS/", dir+"/", 1))
	}
	cmd := exec.Command("strace", args...)
	cmd.Dir = dir
	cmd.Stdin = strings.NewReader(sc.Stdin)
	var so, se bytes.Buffer
	cmd.Stdout, cmd.Stderr = &so, &se
	cmd.Env = append(os.Environ(), "GOMAXPROCS=1")
	done := make(chan error, 1)
	rr := &realRun{}
	if err := cmd.Start(); err != nil {
		rr.status = -1
		return rr
	}
	go func() { done <- cmd.Wait() }()
	var err error
	select {
	case err = <-done:
	case <-time.After(20 * time.Second):
		cmd.Process.Kill() //nolint:errcheck
		err = <-done
		rr.killed = true
	}
	if err != nil {
		if ee, ok := err.(*exec.ExitError); ok {
			rr.status = ee.ExitCode()
			if ws, ok := ee.Sys().(syscall.WaitStatus); ok && ws.Signaled() {
				rr.killed = true
			}
			if rr.status == -1 || rr.status == 137 {
				rr.killed = true
			}
		} else {
			rr.status = -1
		}
	}
	rr.stderr = se.String()
	if b, err := os.ReadFile(logf); err == nil {
		s := string(b)
		rr.hit = strings.Contains(s, "(INJECTED)") || strings.Contains(s, "+++ killed by SIGKILL +++")
		rr.log = s
		if len(s) > 1500 {
			s = s[len(s)-1500:]
		}
		rr.logTail = s
	}
	os.Remove(logf) //nolint:errcheck
	for _, f := range sc.Files {
		st := fileState{name: f.Name}
		p := filepath.Join(dir, f.Name)
		if fi, err := os.Lstat(p); err == nil {
			st.exists = true
			st.mode = uint32(fi.Mode().Perm())
			if b, err := os.ReadFile(p); err == nil {
				st.content = string(b)
			}
		}
		rr.files = append(rr.files, st)
	}
	return rr
}

func (rr *realRun) asOutcome(faulted bool) *outcome {
	o := &outcome{status: rr.status, crashed: rr.killed, stderr: rr.stderr, files: rr.files, fired: map[string]int{}}
	if faulted {
		o.fired["strace"] = 1
	}
	return o
}

// injections derives the strace injections from the fault-free log: for every
// traced call name, every occurrence from the first line that mentions one of
// the scenario's files onward gets an error injection and a SIGKILL injection.
// A seeded subset of n is returned (strace counts occurrences per thread, so
// what an injection really hit is read back from its own log).
func injections(sc *core.Scenario, log string, n int, r *prng.R) []string {
	count := map[string]int{}
	var all []string
	interesting := false
	k := 0
	for _, line := range strings.Split(log, "\n") {
		f := strings.Fields(line)
		if len(f) < 2 {
			continue
		}
		call := f[1]
		if i := strings.Index(call, "("); i > 0 {
			call = call[:i]
		} else {
			continue
		}
		count[call]++
		if !interesting {
			for _, fl := range sc.Files {
				if strings.Contains(line, "\""+filepath.Base(fl.Name)+"\"") || strings.Contains(line, "\""+fl.Name+"\"") {
					interesting = true
				}
			}
		}
		if !interesting || call == "read" {
			continue
		}
		when := count[call]
		if when > 60000 {
			continue
		}
		all = append(all, fmt.Sprintf("%s:error=%s:when=%d", call, injectErr[k%len(injectErr)], when))
		all = append(all, fmt.Sprintf("%s:signal=SIGKILL:when=%d", call, when))
		k++
	}
	if len(all) <= n {
		return all
	}
	perm := r.Perm(len(all))
	out := make([]string, 0, n)
	for _, p := range perm[:n] {
		out = append(out, all[p])
	}
	sortStrings(out)
	return out
}

func sortStrings(a []string) {
	for i := 1; i < len(a); i++ {
		for j := i; j > 0 && a[j] < a[j-1]; j-- {
			a[j], a[j-1] = a[j-1], a[j]
		}
	}
}

func (d *D) conformance(sc *core.Scenario, ctx *core.Ctx, n int) {
	if _, err := os.Stat(filepath.Join(core.ScratchDir, "bin", "evy")); err != nil || !haveStrace() {
		ctx.Inc("conformance_skipped", 1)
		return
	}
	if len(sc.Files) == 0 {
		return
	}
	for _, f := range sc.Files {
		if f.Link != "" || f.Hard != "" {
			return // the conformance layer keeps to regular files with one name
		}
	}
	// fault-free: real binary vs in-process
	in := d.execute(sc, nil)
	rr := d.runReal(sc, "")
	ctx.Inc("evaluations", 2)
	ctx.Inc("conformance_runs", 1)
	same := rr.status == in.status
	for i := range rr.files {
		if rr.files[i] != in.files[i] {
			same = false
		}
	}
	if !same {
		c := sc.Clone()
		c.Kind = "conformance"
		ctx.Violate(c, &core.Violation{Oracle: "conformance-fault-free", Signature: "conformance:fault-free",
			Expected: "the real binary and the in-process command agree on exit status and final file state",
			Observed: map[string]any{"real_status": rr.status, "in_process_status": in.status, "real_stderr": short(rr.stderr), "argv": sc.Argv},
			Match:    map[string]string{"oracle": "conformance"}})
		return
	}
	ctx.Inc("conformance_agree", 1)
	if v := invariants(sc, rr.asOutcome(false), nil); v != nil {
		c := sc.Clone()
		c.Kind = "conformance"
		ctx.Violate(c, v)
		return
	}
	for _, inj := range injections(sc, rr.log, n, core.ItemRNG(sc.Seed, "C18-strace", sc.Index)) {
		r := d.runReal(sc, inj)
		ctx.Inc("evaluations", 1)
		ctx.Inc("conformance_runs", 1)
		if !r.hit {
			ctx.Inc("conformance_not_hit", 1)
			continue
		}
		ctx.Inc("fired:strace:"+strings.SplitN(inj, ":when", 2)[0], 1)
		o := r.asOutcome(true)
		if v := invariants(sc, o, []simos.Fault{{Kind: "strace:" + inj}}); v != nil {
			c := sc.Clone()
			c.Kind = "conformance"
			c.Sealed = map[string]string{"strace_inject": inj}
			v.Observed["strace_inject"] = inj
			v.Observed["strace_log_tail"] = r.logTail
			ctx.Violate(c, v)
			return
		}
		ctx.Inc("conformance_agree", 1)
	}
}

func (d *D) checkConformance(sc *core.Scenario) *core.Violation {
	if !haveStrace() {
		return nil
	}
	inj := sc.Sealed["strace_inject"]
	if inj == "" {
		in := d.execute(sc, nil)
		rr := d.runReal(sc, "")
		same := rr.status == in.status
		for i := range rr.files {
			if rr.files[i] != in.files[i] {
				same = false
			}
		}
		if !same {
			return &core.Violation{Oracle: "conformance-fault-free", Signature: "conformance:fault-free",
				Expected: "the real binary and the in-process command agree on exit status and final file state",
				Observed: map[string]any{"real_status": rr.status, "in_process_status": in.status}, Match: map[string]string{"oracle": "conformance"}}
		}
		return invariants(sc, rr.asOutcome(false), nil)
	}
	r := d.runReal(sc, inj)
	if !r.hit {
		return nil
	}
	return invariants(sc, r.asOutcome(true), []simos.Fault{{Kind: "strace:" + inj}})
}
