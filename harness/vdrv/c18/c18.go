// Package c18: `evy fmt -w` never damages a source file; `-c` tells the truth.
//
// The real command (kong parsing, fmtCmd.Run, format, writeAtomically) runs
// in-process against the simos seam on a real directory. A fault-free run
// records the operation trace; then every operation of that trace is made to
// crash before/after, to fail with every errno, writes are torn/shortened and
// closes lose data. After every run the directory is inspected.
package c18

import (
	"bytes"
	"fmt"
	"io"
	"os"
	"path/filepath"
	"sort"
	"strings"

	evymain "evylang.dev/evy"
	"evylang.dev/evy/pkg/evaluator"
	"evylang.dev/evy/pkg/parser"
	"evylang.dev/evy/vdrv/core"
	"evylang.dev/evy/vdrv/work"
	"evylang.dev/evy/vsim/prng"
	"evylang.dev/evy/vsim/simos"
	"golang.org/x/tools/txtar"
)

// D is the driver.
type D struct {
	dir     string
	runN    int
	lastDir string
}

func (d *D) Property() string { return "C18" }
func (d *D) Level() string    { return "fault_enumeration" }

type tierCfg struct {
	items    int
	pairs    int // seeded two-fault sequences per scenario
	conform  int // every n-th scenario goes through the strace conformance layer
	conformN int // max injections per conformance scenario
}

func cfg(tier string) tierCfg {
	if tier == "thorough" {
		return tierCfg{items: 16000, pairs: 30, conform: 16, conformN: 40}
	}
	return tierCfg{items: 160, pairs: 6, conform: 16, conformN: 12}
}

func (d *D) Count(tier string) int { return cfg(tier).items }

var errnos = []string{"ENOSPC", "EIO", "EACCES", "EROFS", "EMFILE", "EDQUOT", "EINTR"}
var modes = []uint32{0o644, 0o600, 0o640, 0o664, 0o755, 0o444, 0o666, 0o400}

var handSources = []string{
	"",
	"print 1\n",
	"print   1",
	"x:=1\nprint x\n",
	"x := 1\r\nprint x\r\n",
	"// only a comment",
	"if true\nprint 1\nend\n",
	"func f\nprint 1\nend\nf\n\n\n\n",
	"print \"unterminated\n",
	"x := \n",
	"a := 1\nb := 2\n",
	"on key k:string\nprint k\nend",
}

func source(r *prng.R, ctx *core.Ctx) string {
	switch r.Intn(10) {
	case 0, 1:
		return handSources[r.Intn(len(handSources))]
	case 2, 3, 4:
		files := work.Corpus(ctx.Corpus)
		if len(files) == 0 {
			return "print 1\n"
		}
		s := files[r.Intn(len(files))].Text
		switch r.Intn(4) {
		case 0: // unformat: squeeze indentation
			s = strings.ReplaceAll(s, "    ", " ")
		case 1: // break it
			if len(s) > 10 {
				s = s[:len(s)/2]
			}
		case 2:
			s = strings.TrimRight(s, "\n")
		}
		return s
	case 5:
		// large file
		var b strings.Builder
		for i := 0; i < 3000; i++ {
			fmt.Fprintf(&b, "x%d:=%d\nprint x%d\n", i, i, i)
		}
		return b.String()
	default:
		o := work.SwarmOpts(r)
		o.Comments = true
		if r.Chance(0.2) {
			o.NearMiss = true
		}
		sc := work.Generated(r, o, "C18", 0, 0)
		s := sc.Program
		if r.Chance(0.5) {
			s = strings.ReplaceAll(s, "    ", "  ")
		}
		if r.Chance(0.2) {
			s = strings.ReplaceAll(s, " := ", ":=")
		}
		return s
	}
}

// Base builds item idx.
func (d *D) Base(idx int, ctx *core.Ctx) *core.Scenario {
	r := core.ItemRNG(ctx.Seed, "C18", idx)
	sc := &core.Scenario{Property: "C18", Seed: ctx.Seed, Index: idx, Level: "simos", Kind: "fmt", ReplayExact: true}
	mode := []string{"-w", "-w", "-w", "-c", "-c", ""}[r.Intn(6)]
	nfiles := []int{1, 1, 1, 2, 3, 0}[r.Intn(6)]
	names := []string{"a.evy", "b.evy", "sub/c.evy", "with space.evy", "d.txtar", "UP.EVY", "noext"}
	perm := r.Perm(len(names))
	argv := []string{"fmt"}
	if mode != "" {
		argv = append(argv, mode)
	}
	for i := 0; i < nfiles; i++ {
		name := names[perm[i]]
		content := source(r, ctx)
		if strings.HasSuffix(name, ".txtar") {
			ar := &txtar.Archive{Comment: []byte("archive comment\n")}
			for j, n := 0, r.Range(1, 3); j < n; j++ {
				mn := []string{"one.evy", "two.evy", "notes.txt", "dir/three.evy"}[r.Intn(4)]
				data := source(r, ctx)
				if len(data) > 4000 {
					data = "print 1\n"
				}
				ar.Files = append(ar.Files, txtar.File{Name: mn, Data: []byte(data)})
			}
			content = string(txtar.Format(ar))
		}
		if r.Chance(0.45) {
			// an already formatted file: what -c must answer "yes" to, and what must
			// not hide an unformatted neighbour on the same command line
			if ref, ok := reference(name, content); ok {
				content = ref
			}
		}
		sc.Files = append(sc.Files, core.FileSpec{Name: name, Mode: modes[r.Intn(len(modes))], Content: content})
		argv = append(argv, name)
	}
	if nfiles == 0 {
		sc.Stdin = source(r, ctx)
		if len(sc.Stdin) > 20000 {
			sc.Stdin = "print   1\n"
		}
	}
	sc.Argv = argv
	if idx%23 == 7 && nfiles > 0 {
		// misuse of the command line: nothing may be modified, whatever the status
		switch r.Intn(3) {
		case 0:
			sc.Argv = append([]string{"fmt", "-w", "-c"}, argv[len(argv)-nfiles:]...)
		case 1:
			sc.Argv = append([]string{"fmt", "-w", "no-such-file.evy"}, argv[len(argv)-nfiles:]...)
		case 2:
			sc.Argv = append([]string{"fmt", "--no-such-flag"}, argv[len(argv)-nfiles:]...)
		}
		sc.Kind = "fmt-misuse"
	}
	if sc.Kind == "fmt" && nfiles > 0 {
		first := argv[len(argv)-nfiles]
		switch idx % 19 {
		case 5: // the same file twice on one command line
			sc.Argv = append(sc.Argv, first)
			sc.Kind = "fmt-same-file-twice"
		case 11: // a file that does not exist AFTER files that do: work already done for the earlier ones stays valid
			sc.Argv = append(sc.Argv, "no-such-file.evy")
			sc.Kind = "fmt-missing-last"
		case 13: // a directory among the arguments; the file inside is not named itself (and is already formatted)
			sc.Files = append(sc.Files, core.FileSpec{Name: "adir/inside.evy", Mode: 0o644, Content: "print \"inside\"\n"})
			pos := len(sc.Argv) - nfiles + r.Intn(nfiles+1)
			sc.Argv = append(sc.Argv[:pos:pos], append([]string{"adir"}, sc.Argv[pos:]...)...)
			sc.Kind = "fmt-dir-arg"
		case 17: // an absolute path
			for i, a := range sc.Argv {
				if a == first {
					sc.Argv[i] = "@ABS/" + a
				}
			}
			sc.Kind = "fmt-abs-path"
		}
	}
	if idx%7 == 3 {
		// stdin mode: `evy fmt` and `evy fmt -c` without files. The input is what arrives on
		// stdin, byte for byte: formatted, formatted but with CRLF or mixed line ends, without
		// the final newline, unformatted, unparsable, empty.
		base := source(r, ctx)
		if len(base) > 4000 {
			base = "x := 1\nprint x\n"
		}
		if ref, ok := reference("stdin.evy", base); ok && r.Chance(0.7) {
			base = ref
		}
		switch r.Intn(7) {
		case 6: // a byte order mark in front of otherwise formatted (or not) text, as some editors save it
			base = "\ufeff" + base
		case 0:
			base = strings.ReplaceAll(base, "\n", "\r\n")
		case 1:
			if i := strings.Index(base, "\n"); i >= 0 {
				base = base[:i] + "\r\n" + base[i+1:]
			}
		case 2:
			base = strings.TrimRight(base, "\n")
		case 3:
			base = base + "\n"
		}
		sc.Files = nil
		sc.Stdin = base
		sc.Argv = [][]string{{"fmt", "-c"}, {"fmt", "-c"}, {"fmt"}}[r.Intn(3)]
		sc.Kind = "fmt-stdin"
		return sc
	}
	if idx%13 == 2 {
		// several files on one command line in every pattern of formatted (F), unformatted (U) and
		// unparsable (X) - plain files and archives mixed: the status of -c is about ALL of them, and
		// what -w did to an earlier file must not depend on a later one
		patterns := []string{"UF", "FU", "UFF", "FUF", "FFU", "XF", "FX", "UX", "XU", "FF", "UU", "UFU", "XFF", "FXF", "BF", "FB", "B", "FBF"}
		pat := patterns[(idx/13)%len(patterns)]
		// B: formatted text behind a byte order mark - not "in formatted form" (formatting it gives other bytes, or no program at all)
		texts := map[byte]string{'F': "x := 1\nprint x\n", 'U': "x:=1\nprint   x\n", 'X': "x := \nprint )\n", 'B': "\ufeffx := 1\nprint x\n"}
		sc.Files = nil
		argv := []string{"fmt", []string{"-c", "-w"}[(idx/13/len(patterns)+idx)%2]}
		for i := 0; i < len(pat); i++ {
			name := fmt.Sprintf("f%d.evy", i)
			content := texts[pat[i]]
			if (idx/13+i)%3 == 0 {
				name = fmt.Sprintf("f%d.txtar", i)
				ar := &txtar.Archive{Comment: []byte("pattern " + pat + "\n")}
				ar.Files = append(ar.Files, txtar.File{Name: "one.evy", Data: []byte("print 1\n")}, txtar.File{Name: "two.evy", Data: []byte(content)})
				if i%2 == 1 {
					ar.Files[0], ar.Files[1] = ar.Files[1], ar.Files[0]
				}
				content = string(txtar.Format(ar))
			}
			sc.Files = append(sc.Files, core.FileSpec{Name: name, Mode: modes[(idx+i)%len(modes)], Content: content})
			argv = append(argv, name)
		}
		sc.Argv = argv
		sc.Stdin = ""
		sc.Kind = "fmt-pattern:" + pat
		return sc
	}
	if idx%11 == 6 && nfiles > 0 && sc.Kind == "fmt" {
		// the first file has a second name (hard link) that is not on the command line, e.g. a
		// snapshot made with cp -l: whatever the command does to the named file, and wherever it is
		// killed, the other name holds the complete original or the complete formatted text
		first := sc.Files[0]
		sc.Files = append(sc.Files, core.FileSpec{Name: "snapshot/" + filepath.Base(first.Name) + ".keep", Mode: first.Mode, Content: first.Content, Hard: first.Name})
		sc.Kind = "fmt-hardlink"
		if !flag(sc, "-w") && idx%3 != 0 {
			// mostly with -w: that is where the named file is rewritten
			args := []string{"fmt", "-w"}
			for _, a := range sc.Argv[1:] {
				if a != "-c" {
					args = append(args, a)
				}
			}
			sc.Argv = args
		}
	}
	if idx%29 == 11 {
		// symbolic links: the named path is a link with a relative target, in another
		// directory than the working directory; a file with the target's name may sit
		// in the working directory as a bystander
		real := source(r, ctx)
		if len(real) > 3000 {
			real = "x:=1\nprint   x\n"
		}
		m := modes[r.Intn(len(modes))]
		sc.Files = []core.FileSpec{{Name: "src/real.evy", Mode: m, Content: real}, {Name: "src/link.evy", Link: "real.evy"}}
		if r.Chance(0.6) {
			sc.Files = append(sc.Files, core.FileSpec{Name: "real.evy", Mode: 0o644, Content: "print   \"bystander\"\n"})
		}
		sc.Argv = []string{"fmt", []string{"-w", "-w", "-c"}[r.Intn(3)], "src/link.evy"}
		sc.Stdin = ""
		sc.Kind = "fmt-symlink"
	}
	if idx%5 == 4 && sc.Kind != "fmt-symlink" {
		// archive-focused scenario: several members, where formatting makes an
		// early .evy member grow or shrink and other members (evy and non-evy) follow
		grow := []string{
			"if true\nprint 1\nprint 2\nprint 3\nprint 4\nprint 5\nend\n",
			"for i:=range 3\nfor j:=range 2\nprint i j\nprint i+j\nend\nend\n",
			"func f a:num\nprint a\nprint a*2\nprint a*3\nend\nf 1\n",
			"x:=1\ny:=2\nz:=3\nprint x y z\nwhile x<3\nx=x+1\nprint x\nend\n",
		}
		shrink := []string{"print     1\n\n\n\n\nprint     2\n", "x   :=   1\nprint       x\n\n\n"}
		same := []string{"print 1\n", "x := 1\nprint x\n"}
		ar := &txtar.Archive{}
		if r.Chance(0.5) {
			ar.Comment = []byte("a test case\n")
		}
		n := r.Range(2, 4)
		for j := 0; j < n; j++ {
			var name, data string
			switch r.Intn(5) {
			case 0, 1:
				name, data = fmt.Sprintf("m%d.evy", j), grow[r.Intn(len(grow))]
			case 2:
				name, data = fmt.Sprintf("m%d.evy", j), shrink[r.Intn(len(shrink))]
			case 3:
				name, data = fmt.Sprintf("m%d.evy", j), same[r.Intn(len(same))]
			default:
				name, data = []string{"want.txt", "notes.md", "out.svg"}[r.Intn(3)], "a\nb\nc\nd\ne\n"
			}
			ar.Files = append(ar.Files, txtar.File{Name: name, Data: []byte(data)})
		}
		flagArg := []string{"-w", "-w", "-c"}[r.Intn(3)]
		sc.Files = []core.FileSpec{{Name: "case.txtar", Mode: modes[r.Intn(len(modes))], Content: string(txtar.Format(ar))}}
		sc.Argv = []string{"fmt", flagArg, "case.txtar"}
		sc.Stdin = ""
		sc.Kind = "fmt-txtar"
	}
	return sc
}

// Regen implements core.Driver.
func (d *D) Regen(idx int, ctx *core.Ctx) *core.Scenario { return d.Base(idx, ctx) }

// reference computes what the formatted text of a file is, with the real
// parser and formatter. ok=false: the file does not parse.
type refEntry struct {
	key string
	out string
	ok  bool
}

var refCache []refEntry

// reference is memoised: the same file content is judged after every one of
// the ~100 runs of a scenario.
func reference(name, content string) (string, bool) {
	key := name + "\x00" + content
	for i := range refCache {
		if refCache[i].key == key {
			return refCache[i].out, refCache[i].ok
		}
	}
	out, ok := computeReference(name, content)
	if len(refCache) >= 12 {
		refCache = refCache[1:]
	}
	refCache = append(refCache, refEntry{key, out, ok})
	return out, ok
}

func computeReference(name, content string) (string, bool) {
	one := func(src string) (out string, ok bool) {
		defer func() {
			if recover() != nil {
				ok = false
			}
		}()
		prog, err := parser.Parse(src, evaluator.BuiltinDecls())
		if err != nil {
			return "", false
		}
		return prog.Format(), true
	}
	if filepath.Ext(name) == ".txtar" {
		ar := txtar.Parse([]byte(content))
		for i, f := range ar.Files {
			if filepath.Ext(f.Name) != ".evy" {
				continue
			}
			out, ok := one(string(f.Data))
			if !ok {
				return "", false
			}
			ar.Files[i].Data = []byte(out)
		}
		return string(txtar.Format(ar)), true
	}
	return one(content)
}

// outcome of one simulated process run.
type outcome struct {
	status    int
	crashed   bool
	crashAt   int
	stdout    string
	stderr    string
	trace     []simos.OpRec
	fired     map[string]int
	hostPanic string
	files     []fileState
	leftover  []string
}

type fileState struct {
	name    string
	exists  bool
	content string
	mode    uint32
}

func (d *D) workdir() string {
	if d.dir == "" {
		base := "/dev/shm"
		if st, err := os.Stat(base); err != nil || !st.IsDir() {
			base = core.ScratchDir
		}
		dir, err := os.MkdirTemp(base, "evyverif-c18-")
		if err != nil {
			dir, _ = os.MkdirTemp("", "evyverif-c18-")
		}
		d.dir = dir
	}
	return d.dir
}

// Cleanup removes the work directory.
func (d *D) Cleanup() {
	if d.dir != "" {
		os.RemoveAll(d.dir) //nolint:errcheck
	}
}

// execute runs the command once under the given faults in a fresh directory.
func (d *D) execute(sc *core.Scenario, faults []simos.Fault) *outcome {
	d.runN++
	dir := filepath.Join(d.workdir(), fmt.Sprintf("r%d", d.runN%64))
	os.RemoveAll(dir) //nolint:errcheck
	if err := os.MkdirAll(dir, 0o755); err != nil {
		panic(err)
	}
	return d.executeIn(dir, sc, faults)
}

// executeIn (re)writes the scenario's files into dir – whatever an earlier,
// possibly killed run left there stays – and runs the command once.
func (d *D) executeIn(dir string, sc *core.Scenario, faults []simos.Fault) *outcome {
	core.HeartbeatNow()
	d.lastDir = dir
	for _, f := range sc.Files {
		p := filepath.Join(dir, f.Name)
		os.MkdirAll(filepath.Dir(p), 0o755) //nolint:errcheck
		if f.Link != "" {
			os.Remove(p) //nolint:errcheck
			if err := os.Symlink(f.Link, p); err != nil {
				panic(err)
			}
			continue
		}
		if f.Hard != "" {
			continue // a second name of another file: linked below, its text is that file's text
		}
		os.Chmod(p, 0o600) //nolint:errcheck // the user edits the file in place (same inode, same name)
		if err := os.WriteFile(p, []byte(f.Content), 0o600); err != nil {
			panic(err)
		}
		if err := os.Chmod(p, os.FileMode(f.Mode)); err != nil {
			panic(err)
		}
	}
	for _, f := range sc.Files {
		if f.Hard != "" {
			p := filepath.Join(dir, f.Name)
			os.Remove(p) //nolint:errcheck
			if err := os.Link(filepath.Join(dir, f.Hard), p); err != nil {
				panic(err)
			}
		}
	}
	old, _ := os.Getwd()
	if err := os.Chdir(dir); err != nil {
		panic(err)
	}
	defer os.Chdir(old) //nolint:errcheck
	simos.Reset(dir, faults, prng.Mix(sc.Seed, uint64(sc.Index)))
	simos.SetStdin(strings.NewReader(sc.Stdin))
	// fmt.Print in the command writes to the real os.Stdout: capture it
	realStdout := os.Stdout
	capf, err := os.CreateTemp(d.workdir(), "stdout-")
	if err == nil {
		os.Stdout = capf
	}
	out := &outcome{}
	var kout, kerr bytes.Buffer
	func() {
		defer func() {
			if r := recover(); r != nil {
				switch e := r.(type) {
				case simos.CrashPanic:
					out.crashed, out.crashAt = true, e.At
				case simos.ExitPanic:
					out.status = e.Code
				default:
					out.hostPanic = fmt.Sprint(r)
					out.status = 2
				}
			}
		}()
		args := make([]string, len(sc.Argv))
		for i, a := range sc.Argv {
			args[i] = strings.Replace(a, "@ABS/", dir+"/", 1)
		}
		out.status = evymain.SimMain(args, &kout, &kerr)
	}()
	os.Stdout = realStdout
	if capf != nil {
		capf.Seek(0, io.SeekStart) //nolint:errcheck
		b, _ := io.ReadAll(capf)
		out.stdout = string(b)
		capf.Close()           //nolint:errcheck
		os.Remove(capf.Name()) //nolint:errcheck
	}
	out.stdout += kout.String() + simos.StdoutB.String()
	out.stderr = kerr.String() + simos.StderrB.String()
	out.trace = append([]simos.OpRec(nil), simos.Trace...)
	out.fired = simos.Fired
	// inspect the directory with the real os package
	known := map[string]bool{}
	for _, f := range sc.Files {
		known[f.Name] = true
		st := fileState{name: f.Name}
		p := filepath.Join(dir, f.Name)
		if fi, err := os.Lstat(p); err == nil {
			st.exists = true
			st.mode = uint32(fi.Mode().Perm())
			if b, err := os.ReadFile(p); err == nil {
				st.content = string(b)
			}
		}
		out.files = append(out.files, st)
	}
	filepath.Walk(dir, func(p string, fi os.FileInfo, err error) error { //nolint:errcheck
		if err == nil && !fi.IsDir() {
			if r, _ := filepath.Rel(dir, p); !known[r] {
				out.leftover = append(out.leftover, r)
			}
		}
		return nil
	})
	return out
}

func flag(sc *core.Scenario, f string) bool {
	for _, a := range sc.Argv {
		if a == f {
			return true
		}
	}
	return false
}

func short(s string) string {
	if len(s) > 160 {
		return fmt.Sprintf("%q…(%d bytes)", s[:160], len(s))
	}
	return fmt.Sprintf("%q", s)
}

func describe(fs []simos.Fault) string {
	var parts []string
	for _, f := range fs {
		parts = append(parts, fmt.Sprintf("%s@op%d %s %d", f.Kind, f.Op, f.Errno, f.Bytes))
	}
	return strings.Join(parts, "; ")
}

// invariants checks I1–I5 on one outcome.
func invariants(sc *core.Scenario, o *outcome, faults []simos.Fault) *core.Violation {
	write, check := flag(sc, "-w"), flag(sc, "-c")
	faulted := len(faults) > 0 && (o.crashed || len(o.fired) > 0)
	obs := func(extra map[string]any) map[string]any {
		var tr []string
		for _, op := range o.trace {
			tr = append(tr, fmt.Sprintf("%d:%s %s %s", op.Index, op.Name, op.Path, op.Result))
		}
		m := map[string]any{"argv": sc.Argv, "faults": describe(faults), "status": o.status, "crashed": o.crashed, "trace": tr, "stderr": short(o.stderr), "leftover_files": o.leftover}
		for k, v := range extra { // merged into a map that json sorts
			m[k] = v
		}
		return m
	}
	// A Go panic inside the command (today: the parser's internal "incompatible
	// types" panic on some inputs, which is C03's pure-input territory) ends the
	// real process with a stack trace and status 2. For THIS property that is a
	// process that died with a non-zero status: the file invariants below apply.
	allFormatted, anyUnparsable := true, false
	named := map[string]bool{}
	for _, a := range sc.Argv {
		named[strings.TrimPrefix(a, "@ABS/")] = true
	}
	linkTarget := map[string]bool{} // files that a named symbolic link points to
	for _, f := range sc.Files {
		if f.Link != "" {
			linkTarget[filepath.Join(filepath.Dir(f.Name), f.Link)] = true
		}
	}
	contentOf := func(name string) string {
		for _, g := range sc.Files {
			if g.Name == name {
				return g.Content
			}
		}
		return ""
	}
	for i, f := range sc.Files {
		st := o.files[i]
		isLink := f.Link != ""
		if isLink {
			// what the path shows is the text of the file it points to
			f.Content = contentOf(filepath.Join(filepath.Dir(f.Name), f.Link))
		}
		if f.Hard != "" {
			f.Content = contentOf(f.Hard) // a second name of that file
		}
		ref, parses := reference(f.Name, f.Content)
		if !named[f.Name] && !isLink {
			// not on the command line
			where := map[string]any{"file": f.Name, "original_mode": fmt.Sprintf("%04o", f.Mode), "mode_after": fmt.Sprintf("%04o", st.mode)}
			okState := st.exists && st.content == f.Content
			if linkTarget[f.Name] && st.exists && parses && st.content == ref {
				okState = true // writing through the link is a legitimate choice
			}
			if f.Hard != "" && st.exists && parses && st.content == ref && write {
				okState = true // rewriting the shared inode in place is a legitimate choice - if it ends complete
			}
			if !okState || st.mode != f.Mode {
				where["content_after"] = short(st.content)
				return &core.Violation{Oracle: "I5-other-files-untouched", Signature: "I5:bystander-modified", Expected: "a file that is not named on the command line is left alone",
					Observed: obs(where), Match: map[string]string{"oracle": "I5"}}
			}
			continue
		}
		if !parses {
			anyUnparsable = true
			allFormatted = false
		} else if ref != f.Content {
			allFormatted = false
		}
		where := map[string]any{"file": f.Name, "original_mode": fmt.Sprintf("%04o", f.Mode), "mode_after": fmt.Sprintf("%04o", st.mode), "parses": parses}
		if !st.exists {
			return &core.Violation{Oracle: "I1-content", Signature: "I1:missing", Expected: "the file holds its complete original text or the complete formatted text",
				Observed: obs(where), Match: map[string]string{"oracle": "I1", "state": "missing"}}
		}
		isOrig := st.content == f.Content
		isFmt := parses && st.content == ref
		if check || !parses {
			if !isOrig {
				w := where
				w["content_after"] = short(st.content)
				oracle, sig := "I4-check-modifies-nothing", "I4:modified"
				if !check {
					oracle, sig = "I3-unparsable-untouched", "I3:modified"
				}
				return &core.Violation{Oracle: oracle, Signature: sig, Expected: "a file that does not parse, and every file under -c, is byte-identical afterwards",
					Observed: obs(w), Match: map[string]string{"oracle": oracle[:2]}}
			}
		} else if !isOrig && !isFmt {
			state := "mixture"
			switch {
			case st.content == "":
				state = "empty"
			case strings.HasPrefix(ref, st.content):
				state = "prefix-of-formatted"
			case strings.HasPrefix(f.Content, st.content):
				state = "prefix-of-original"
			}
			w := where
			w["content_after"] = short(st.content)
			w["state"] = state
			return &core.Violation{Oracle: "I1-content", Signature: "I1:" + state, Expected: "the file holds its complete original text or the complete formatted text",
				Observed: obs(w), Match: map[string]string{"oracle": "I1", "state": state}}
		}
		if st.mode != f.Mode && !isLink {
			sig := "I2:mode"
			if faulted {
				sig = "I2:mode-under-fault"
			}
			return &core.Violation{Oracle: "I2-permission-bits", Signature: sig, Expected: "the file's permission bits are unchanged",
				Observed: obs(where), Match: map[string]string{"oracle": "I2"}}
		}
		if !write && !isOrig {
			w := where
			w["content_after"] = short(st.content)
			return &core.Violation{Oracle: "I4-check-modifies-nothing", Signature: "I4:modified-without-w", Expected: "without -w no file is modified",
				Observed: obs(w), Match: map[string]string{"oracle": "I4"}}
		}
		if write && !faulted && !o.crashed && o.status == 0 && parses && !isFmt {
			return &core.Violation{Oracle: "I1-write-formats", Signature: "I1:not-formatted-after-success", Expected: "a successful fault-free `fmt -w` leaves the formatted text",
				Observed: obs(where), Match: map[string]string{"oracle": "I1", "state": "not-formatted"}}
		}
	}
	if check {
		for _, op := range o.trace {
			if op.Mutating {
				return &core.Violation{Oracle: "I4-check-modifies-nothing", Signature: "I4:mutating-call", Expected: "`fmt -c` performs no mutating file-system call",
					Observed: obs(map[string]any{"call": op.Name + " " + op.Path}), Match: map[string]string{"oracle": "I4"}}
			}
		}
	}
	if o.crashed {
		return nil
	}
	if len(sc.Files) == 0 {
		// stdin mode
		ref, parses := reference("stdin.evy", sc.Stdin)
		formatted := parses && ref == sc.Stdin
		if check && !write {
			if (o.status == 0) != formatted && !faulted {
				return &core.Violation{Oracle: "I4-check-status", Signature: "I4:status-stdin", Expected: "`fmt -c` exits zero exactly for input that is already in formatted form",
					Observed: obs(map[string]any{"stdin": short(sc.Stdin), "already_formatted": formatted}), Match: map[string]string{"oracle": "I4-status"}}
			}
		}
		return nil
	}
	if check && sc.Kind == "fmt-missing-last" && o.status == 0 {
		return &core.Violation{Oracle: "I4-check-status", Signature: "I4:status-zero-for-missing-file", Expected: "`fmt -c` exits zero exactly for input that is already in formatted form (a file that does not exist is not)",
			Observed: obs(nil), Match: map[string]string{"oracle": "I4-status"}}
	}
	if check && sc.Kind != "fmt-misuse" && sc.Kind != "fmt-missing-last" && sc.Kind != "fmt-dir-arg" {
		if o.status == 0 && !allFormatted {
			return &core.Violation{Oracle: "I4-check-status", Signature: "I4:status-zero-for-unformatted", Expected: "`fmt -c` exits zero exactly for input that is already in formatted form",
				Observed: obs(map[string]any{"all_files_formatted": allFormatted}), Match: map[string]string{"oracle": "I4-status"}}
		}
		if o.status != 0 && allFormatted && !faulted {
			return &core.Violation{Oracle: "I4-check-status", Signature: "I4:status-nonzero-for-formatted", Expected: "`fmt -c` exits zero exactly for input that is already in formatted form",
				Observed: obs(map[string]any{"all_files_formatted": allFormatted}), Match: map[string]string{"oracle": "I4-status"}}
		}
	}
	if anyUnparsable && o.status == 0 && !faulted {
		return &core.Violation{Oracle: "I3-unparsable-status", Signature: "I3:status-zero", Expected: "a file that does not parse gives a non-zero exit status",
			Observed: obs(nil), Match: map[string]string{"oracle": "I3-status"}}
	}
	if anyUnparsable && o.status == 0 && faulted {
		// a fault may stop the command before it reaches the bad file, but then the status is non-zero as well
		return &core.Violation{Oracle: "I3-unparsable-status", Signature: "I3:status-zero-under-fault", Expected: "a file that does not parse gives a non-zero exit status",
			Observed: obs(nil), Match: map[string]string{"oracle": "I3-status"}}
	}
	return nil
}

// enumerate builds the single-fault space of a trace.
func enumerate(trace []simos.OpRec) [][]simos.Fault {
	var out [][]simos.Fault
	for _, op := range trace {
		out = append(out, []simos.Fault{{Kind: simos.CrashBefore, Op: op.Index}})
		out = append(out, []simos.Fault{{Kind: simos.CrashAfter, Op: op.Index}})
		es := errnos
		if op.Name == "rename" {
			es = append(append([]string{}, errnos...), "EXDEV")
		}
		if op.Name == "read" {
			es = []string{"EIO", "EINTR"}
		}
		for _, e := range es {
			out = append(out, []simos.Fault{{Kind: simos.Fail, Op: op.Index, Errno: e}})
		}
		if op.Name == "write" || op.Name == "pwrite" {
			n := op.N
			seen := map[int]bool{}
			for _, b := range []int{0, 1, n / 2, n - 1} {
				if b < 0 || b > n || seen[b] {
					continue
				}
				seen[b] = true
				out = append(out, []simos.Fault{{Kind: simos.Torn, Op: op.Index, Bytes: b}})
				out = append(out, []simos.Fault{{Kind: simos.ShortWrite, Op: op.Index, Bytes: b, Errno: "ENOSPC"}})
				out = append(out, []simos.Fault{{Kind: simos.ShortWrite, Op: op.Index, Bytes: b, Errno: "EIO"}})
			}
		}
		if op.Name == "close" {
			for _, b := range []int{1, 7, 1 << 30} {
				out = append(out, []simos.Fault{{Kind: simos.CloseLoss, Op: op.Index, Bytes: b, Errno: "EIO"}})
				out = append(out, []simos.Fault{{Kind: simos.CloseLoss, Op: op.Index, Bytes: b, Errno: "ENOSPC"}})
			}
		}
	}
	return out
}

func traceSig(tr []simos.OpRec) string {
	var b strings.Builder
	for _, op := range tr {
		b.WriteString(op.Name)
		b.WriteByte(',')
	}
	return b.String()
}

// RunItem: fault-free run, then the whole single-fault space of its trace, then seeded pairs.
func (d *D) RunItem(idx int, ctx *core.Ctx) {
	c := cfg(ctx.Tier)
	sc := d.Base(idx, ctx)
	sc.Tier = ctx.Tier
	base := d.execute(sc, nil)
	ctx.Inc("evaluations", 1)
	ctx.Inc("scenarios", 1)
	if base.hostPanic != "" {
		ctx.Inc("command_died_with_go_panic(parser crash, C03 territory)", 1)
	}
	ctx.Inc("mode:"+strings.Join(sc.Argv[1:min(2, len(sc.Argv))], ""), 1)
	ctx.Inc("kind:"+sc.Kind, 1)
	if v := invariants(sc, base, nil); v != nil {
		ctx.Violate(sc, v)
	}
	ctx.Inc("ops_in_fault_free_traces", int64(len(base.trace)))
	scHash := prng.HashString(fmt.Sprint(sc.Argv, sc.Files, sc.Stdin))
	ctx.Sched(prng.HashString(traceSig(base.trace)))
	space := enumerate(base.trace)
	ctx.Inc("fault_points_total", int64(len(space)))
	fi := 0
	secondLevel := 0
	for _, fs := range space {
		o := d.execute(sc, fs)
		ctx.Inc("evaluations", 1)
		ctx.Inc("fault_points_hit", 1)
		d.account(ctx, o)
		if o.crashed || len(o.fired) > 0 {
			ctx.Distinct(prng.Mix(scHash, prng.HashString(describe(fs))))
		}
		ctx.Sched(prng.HashString(traceSig(o.trace) + describe(fs)))
		if v := invariants(sc, o, fs); v != nil {
			f := sc.Clone()
			f.OSFault = fs
			ctx.Violate(f, v)
			continue
		}
		// a command that carries on after a failed operation (a fallback, a retry, clean-up) opens a
		// second level: every single fault in whatever it does AFTER the failure is executed as well
		if len(fs) == 1 && !o.crashed && len(o.fired) > 0 && len(o.trace) > fs[0].Op+1 && secondLevel < 600 {
			for _, f2 := range enumerate(o.trace[fs[0].Op+1:]) {
				if secondLevel >= 600 {
					break
				}
				secondLevel++
				pair := []simos.Fault{fs[0], f2[0]}
				o2 := d.execute(sc, pair)
				ctx.Inc("evaluations", 1)
				ctx.Inc("second_level_fault_runs", 1)
				d.account(ctx, o2)
				ctx.Sched(prng.HashString(traceSig(o2.trace) + describe(pair)))
				if v := invariants(sc, o2, pair); v != nil {
					f := sc.Clone()
					f.OSFault = pair
					v.Signature = "after-failure:" + v.Signature
					ctx.Violate(f, v)
					break
				}
			}
		}
		// history: whatever this (killed or failed) run left behind is still there
		// when the user edits the file and formats again
		if (o.crashed || len(o.leftover) > 0) && len(sc.Files) > 0 && flag(sc, "-w") {
			follow := d.followUp(sc, fi)
			fi++
			o2 := d.executeIn(d.lastDir, follow, nil)
			ctx.Inc("evaluations", 1)
			ctx.Inc("history_second_runs", 1)
			if v := invariants(follow, o2, nil); v != nil {
				f := sc.Clone()
				f.OSFault = fs
				f.Then = follow.Files
				v.Signature = "history:" + v.Signature
				v.Observed["history"] = "first run: " + describe(fs) + "; then the files were edited and the command was run again without faults"
				ctx.Violate(f, v)
			}
		}
	}
	// two-fault sequences: a failure, then a second fault in whatever the command does next
	r := core.ItemRNG(ctx.Seed, "C18-pairs", idx)
	for i := 0; i < c.pairs && len(space) > 0; i++ {
		f1 := space[r.Intn(len(space))]
		if f1[0].Kind == simos.CrashBefore || f1[0].Kind == simos.CrashAfter || f1[0].Kind == simos.Torn {
			continue
		}
		o1 := d.execute(sc, f1)
		ctx.Inc("evaluations", 1)
		later := o1.trace
		if len(later) <= f1[0].Op+1 {
			// the command stopped at the first failure: there is no later operation to fault
			ctx.Inc("fault_sequences_impossible_command_stopped_at_first_failure", 1)
			continue
		}
		op2 := later[f1[0].Op+1+r.Intn(len(later)-f1[0].Op-1)]
		var f2 simos.Fault
		switch r.Intn(3) {
		case 0:
			f2 = simos.Fault{Kind: simos.CrashBefore, Op: op2.Index}
		case 1:
			f2 = simos.Fault{Kind: simos.CrashAfter, Op: op2.Index}
		default:
			f2 = simos.Fault{Kind: simos.Fail, Op: op2.Index, Errno: errnos[r.Intn(len(errnos))]}
		}
		fs := []simos.Fault{f1[0], f2}
		o := d.execute(sc, fs)
		ctx.Inc("evaluations", 1)
		ctx.Inc("fault_sequences", 1)
		d.account(ctx, o)
		ctx.Distinct(prng.Mix(scHash, prng.HashString(describe(fs))))
		if v := invariants(sc, o, fs); v != nil {
			f := sc.Clone()
			f.OSFault = fs
			ctx.Violate(f, v)
		}
	}
	// chosen by hash, not by idx%N: with N equal to the worker count all strace work would land on one worker
	if c.conform > 0 && prng.Mix(uint64(idx), 0x5eed)%uint64(c.conform) == 0 && os.Getenv("VERIF_NO_CONFORM") == "" {
		d.conformance(sc, ctx, c.conformN)
	}
	if len(ctx.St.Samples) < 3 && len(sc.Files) > 0 && len(sc.Files[0].Content) < 300 {
		var tr []string
		for _, op := range base.trace {
			tr = append(tr, op.Name+" "+op.Path)
		}
		ctx.Sample(map[string]any{"argv": sc.Argv, "files": sc.Files, "fault_free_trace": tr, "single_faults_enumerated": len(space), "status": base.status}, 3)
	}
}

func (d *D) account(ctx *core.Ctx, o *outcome) {
	if o.hostPanic != "" {
		ctx.Inc("command_died_with_go_panic(parser crash, C03 territory)", 1)
	}
	keys := make([]string, 0, len(o.fired))
	for k := range o.fired { // sorted before use
		keys = append(keys, k)
	}
	sort.Strings(keys)
	for _, k := range keys {
		ctx.Inc("fired:"+k, int64(o.fired[k]))
	}
	if o.crashed {
		ctx.Inc("runs_crashed", 1)
	}
	if len(o.leftover) > 0 {
		ctx.Inc("runs_with_leftover_temp_files", 1)
	}
	for _, op := range o.trace {
		if strings.HasPrefix(op.Result, "torn") {
			ctx.Inc("probe_torn_write", 1)
		}
		if strings.HasPrefix(op.Result, "close-loss") {
			ctx.Inc("probe_close_failed_after_full_write", 1)
		}
	}
}

// followUp is the scenario of the second run: same names and modes, edited
// contents (shorter, longer, or just different from the first version).
func (d *D) followUp(sc *core.Scenario, k int) *core.Scenario {
	f := sc.Clone()
	f.OSFault = nil
	for i := range f.Files {
		if strings.HasSuffix(f.Files[i].Name, ".txtar") {
			f.Files[i].Content = "-- one.evy --\nprint   1\n"
			continue
		}
		switch k % 3 {
		case 0:
			f.Files[i].Content = "x:=1\nprint x\n" // much shorter than most first versions
		case 1:
			f.Files[i].Content = sc.Files[i].Content + "\nprint   \"appended\"\n"
		default:
			f.Files[i].Content = "print   \"edited\"\n" + sc.Files[i].Content
		}
	}
	return f
}

// Check re-executes one scenario (fault-free if it has no faults).
func (d *D) Check(sc *core.Scenario) *core.Violation {
	defer d.Cleanup()
	if sc.Kind == "conformance" {
		return d.checkConformance(sc)
	}
	o := d.execute(sc, sc.OSFault)
	if len(sc.Then) == 0 {
		return invariants(sc, o, sc.OSFault)
	}
	if v := invariants(sc, o, sc.OSFault); v != nil {
		return v
	}
	follow := sc.Clone()
	follow.OSFault, follow.Then = nil, nil
	follow.Files = sc.Then
	o2 := d.executeIn(d.lastDir, follow, nil)
	v := invariants(follow, o2, nil)
	if v != nil {
		v.Signature = "history:" + v.Signature
	}
	return v
}

// Shrink: fewer faults, simpler files.
func (d *D) Shrink(sc *core.Scenario) []*core.Scenario {
	var out []*core.Scenario
	for i := range sc.OSFault {
		c := sc.Clone()
		c.OSFault = append(c.OSFault[:i:i], c.OSFault[i+1:]...)
		out = append(out, c)
	}
	for i, f := range sc.Files {
		for _, content := range []string{"print 1\n", "print   1\n", "x := \n"} {
			if f.Content != content && len(f.Content) > len(content) {
				c := sc.Clone()
				c.Files[i].Content = content
				out = append(out, c)
			}
		}
		if f.Mode != 0o644 {
			c := sc.Clone()
			c.Files[i].Mode = 0o644
			out = append(out, c)
		}
	}
	return out
}

// Describe adds the property-specific evidence.
func (d *D) Describe(ev *core.Evidence, st *core.Stats) {
	c := st.Counters
	ev.Coverage["rule"] = "one evaluation = one in-process run of the real `evy fmt` command on a fresh real directory (or one run of the real binary under strace in the conformance layer); for each scenario (argv, 0-3 files with content and mode, or stdin) the fault-free operation trace is recorded and then every operation is crashed before/after, failed with every errno, writes are torn/shortened at 0/1/n/2/n-1 bytes and closes lose data, plus seeded two-fault sequences; non-trivial = a fault actually fired or the process was crashed; distinct by hash(scenario, fault list); distinct_schedules = distinct (operation trace, fault list)"
	ev.Coverage["scenarios"] = c["scenarios"]
	ev.Coverage["fault_points_total"] = c["fault_points_total"]
	ev.Coverage["fault_points_hit"] = c["fault_points_hit"]
	ev.Coverage["exhaustive"] = false
	ev.Coverage["exhaustive_note"] = "exhaustive over the single-fault space of each sampled scenario's operation trace; sampled over scenarios and over two-fault sequences"
	fired := map[string]int64{}
	for k, v := range c { // copied into a map that json sorts
		if strings.HasPrefix(k, "fired:") {
			fired[strings.TrimPrefix(k, "fired:")] = v
		}
	}
	fired["process-crash"] = c["runs_crashed"]
	fired["two-fault-sequences"] = c["fault_sequences"]
	fired["history: second run after a killed/failed first run"] = c["history_second_runs"]
	fired["strace-injections"] = c["conformance_runs"]
	kinds := map[string]int64{}
	for k, v := range c { // copied into a map that json sorts
		if strings.HasPrefix(k, "kind:") {
			kinds[strings.TrimPrefix(k, "kind:")] = v
		}
	}
	ev.Coverage["scenario_kinds"] = kinds
	ev.Coverage["faults_injected"] = fired
	ev.Coverage["traces_validated_against_impl"] = c["conformance_agree"]
	ev.Coverage["conformance"] = map[string]int64{"runs": c["conformance_runs"], "agree_with_in_process": c["conformance_agree"], "skipped_no_ptrace": c["conformance_skipped"], "injection_not_hit": c["conformance_not_hit"]}
	ev.Coverage["probes"] = map[string]int64{"torn_write": c["probe_torn_write"], "close_failed_after_full_write": c["probe_close_failed_after_full_write"], "runs_with_leftover_temp_files": c["runs_with_leftover_temp_files"], "second_level_fault_runs(command carried on after a failure)": c["second_level_fault_runs"]}
	ev.Coverage["components"] = map[string][]string{
		"real": {"kong flag parsing", "fmtCmd.Run / fmtEvyFile / fmtTxtarFile / format / writeAtomically", "parser and formatter", "the kernel's file system (real directory on tmpfs)", "conformance layer: the real evy binary under strace fault/kill injection"},
		"stub": {"os package calls of package main and pkg/cli (simos: decision points around the real calls)", "process exit (panic recovered by the driver)"}}
	ev.Assumptions = []string{
		"a killed process loses nothing the kernel already accepted: durability across power loss (missing fsync) is not part of the property",
		"left-over temporary files are counted, not reported: the property speaks about the source file",
		"what -c prints is not constrained",
	}
	if c["conformance_skipped"] > 0 {
		ev.Assumptions = append(ev.Assumptions, "WARNING: strace conformance layer skipped (ptrace not permitted or strace missing)")
	}
}

func min(a, b int) int {
	if a < b {
		return a
	}
	return b
}
