// Package prng is the only source of choices in the simulator: a splitmix64
// stream seeded from VERIF_SEED, with derivation of independent sub-streams
// by hashing labels so that scenarios do not depend on worker count or order.
package prng

// R is a splitmix64 generator.
type R struct{ s uint64 }

// New returns a generator seeded with seed.
func New(seed uint64) *R { return &R{s: seed} }

// Uint64 returns the next value.
func (r *R) Uint64() uint64 {
	r.s += 0x9e3779b97f4a7c15
	z := r.s
	z = (z ^ (z >> 30)) * 0xbf58476d1ce4e5b9
	z = (z ^ (z >> 27)) * 0x94d049bb133111eb
	return z ^ (z >> 31)
}

// Intn returns a value in [0,n). n<=0 yields 0.
func (r *R) Intn(n int) int {
	if n <= 0 {
		return 0
	}
	return int(r.Uint64() % uint64(n))
}

// Int63 returns a non-negative int64.
func (r *R) Int63() int64 { return int64(r.Uint64() >> 1) }

// Float64 returns a value in [0,1).
func (r *R) Float64() float64 { return float64(r.Uint64()>>11) / (1 << 53) }

// Chance returns true with probability p.
func (r *R) Chance(p float64) bool { return r.Float64() < p }

// Range returns a value in [lo,hi].
func (r *R) Range(lo, hi int) int {
	if hi <= lo {
		return lo
	}
	return lo + r.Intn(hi-lo+1)
}

// Pick returns a random element index weighted by w.
func (r *R) Pick(w []int) int {
	t := 0
	for _, x := range w {
		t += x
	}
	if t <= 0 {
		return 0
	}
	k := r.Intn(t)
	for i, x := range w {
		if k < x {
			return i
		}
		k -= x
	}
	return len(w) - 1
}

// Perm returns a permutation of 0..n-1.
func (r *R) Perm(n int) []int {
	p := make([]int, n)
	for i := range p {
		p[i] = i
	}
	for i := n - 1; i > 0; i-- {
		j := r.Intn(i + 1)
		p[i], p[j] = p[j], p[i]
	}
	return p
}

// Mix hashes a list of integers into one seed.
func Mix(vs ...uint64) uint64 {
	h := uint64(0x243f6a8885a308d3)
	for _, v := range vs {
		h ^= v
		h *= 0x100000001b3
		h = (h ^ (h >> 29)) * 0xbf58476d1ce4e5b9
		h ^= h >> 32
	}
	return h
}

// HashString is FNV-1a 64.
func HashString(s string) uint64 {
	h := uint64(0xcbf29ce484222325)
	for i := 0; i < len(s); i++ {
		h ^= uint64(s[i])
		h *= 0x100000001b3
	}
	return h
}

// Derive returns an independent stream for (seed, labels...).
func Derive(seed uint64, labels ...uint64) *R {
	return New(Mix(append([]uint64{seed}, labels...)...))
}
