// Package simos is the file/process seam. In the rewritten package main and
// pkg/cli every os.X that exists here is redirected to simos.X. Operations
// run against a real directory through the real os package (so the kernel's
// semantics apply); simos only adds numbered decision points before, inside
// and after every call where the schedule can make the call fail or make
// the process "die". After a simulated crash every further call is dead.
package simos

import (
	"bytes"
	"errors"
	"fmt"
	"io"
	"io/fs"
	"os"
	"path/filepath"
	"strings"
	"syscall"

	"evylang.dev/evy/vsim/prng"
)

// Fault kinds.
const (
	CrashBefore = "crash-before" // die before the call has any effect
	CrashAfter  = "crash-after"  // die right after the call completed
	Fail        = "fail"         // the call fails with Errno and has no effect
	Torn        = "torn"         // Write: Bytes bytes reach the file, then die
	ShortWrite  = "short-write"  // Write: Bytes bytes reach the file, then Errno
	CloseLoss   = "close-loss"   // Close: the last Bytes bytes never reach the disk, Close reports Errno
	EOFAfter    = "eof-after"    // Read on a stream: end of input after Bytes bytes in total
)

// Fault is one injected fault, addressed by operation index in the trace.
type Fault struct {
	Kind  string `json:"kind"`
	Op    int    `json:"op"`
	Errno string `json:"errno,omitempty"`
	Bytes int    `json:"bytes,omitempty"`
}

// OpRec is one entry of the operation trace.
type OpRec struct {
	Index    int    `json:"i"`
	Name     string `json:"op"`
	Path     string `json:"path,omitempty"`
	Mutating bool   `json:"mut,omitempty"`
	N        int    `json:"n,omitempty"`
	Result   string `json:"res,omitempty"`
}

// CrashPanic unwinds the simulated process after a crash.
type CrashPanic struct{ At int }

// ExitPanic unwinds the simulated process after os.Exit.
type ExitPanic struct{ Code int }

// ErrCrashed is returned by every call after a crash.
var ErrCrashed = errors.New("simos: process is dead")

var (
	// Trace is the operation log of the current run.
	Trace []OpRec
	// Crashed is set once a crash fault fired.
	Crashed bool
	// Fired counts faults that actually fired, by kind.
	Fired  = map[string]int{}
	faults []Fault
	root   string
	rng    = prng.New(1)

	// Stdin, Stdout, Stderr replace os.Stdin etc.
	Stdin  = &File{std: 0, name: "/dev/stdin"}
	Stdout = &File{std: 1, name: "/dev/stdout"}
	Stderr = &File{std: 2, name: "/dev/stderr"}

	stdinR  io.Reader = strings.NewReader("")
	StdoutB bytes.Buffer
	StderrB bytes.Buffer
	// StdoutFault makes every write to Stdout fail with this errno after StdoutLimit bytes ("" = never).
	StdoutFault string
	StdoutLimit int
)

// Reset prepares a run: dir is the directory shown in trace paths, fs is the
// fault list, seed names temp files.
func Reset(dir string, fs []Fault, seed uint64) {
	Trace = Trace[:0]
	Crashed = false
	faults = fs
	root = dir
	rng = prng.New(seed)
	stdinR = strings.NewReader("")
	StdoutB.Reset()
	StderrB.Reset()
	StdoutFault, StdoutLimit = "", 0
	Fired = map[string]int{}
}

// SetStdin installs the reader behind Stdin.
func SetStdin(r io.Reader) { stdinR = r }

func rel(p string) string {
	if root != "" {
		if r, err := filepath.Rel(root, p); err == nil && !strings.HasPrefix(r, "..") {
			return r
		}
	}
	return p
}

func errno(name string) error {
	switch name {
	case "ENOSPC":
		return syscall.ENOSPC
	case "EIO":
		return syscall.EIO
	case "EACCES":
		return syscall.EACCES
	case "EROFS":
		return syscall.EROFS
	case "EMFILE":
		return syscall.EMFILE
	case "EDQUOT":
		return syscall.EDQUOT
	case "EINTR":
		return syscall.EINTR
	case "EXDEV":
		return syscall.EXDEV
	case "EPIPE":
		return syscall.EPIPE
	case "ENOENT":
		return syscall.ENOENT
	case "EPERM":
		return syscall.EPERM
	case "EEXIST":
		return syscall.EEXIST
	}
	return syscall.EIO
}

func crash(at int) {
	Crashed = true
	panic(CrashPanic{At: at})
}

func faultAt(idx int, kinds ...string) *Fault {
	for i := range faults {
		f := &faults[i]
		if f.Op != idx {
			continue
		}
		for _, k := range kinds {
			if f.Kind == k {
				return f
			}
		}
	}
	return nil
}

// begin logs an operation and handles crash-before / fail. It returns the op
// index and a non-nil error if the call must not be executed.
func begin(name, path string, mutating bool, n int) (int, error) {
	if Crashed {
		return -1, ErrCrashed
	}
	idx := len(Trace)
	Trace = append(Trace, OpRec{Index: idx, Name: name, Path: rel(path), Mutating: mutating, N: n})
	if f := faultAt(idx, CrashBefore); f != nil {
		Fired[CrashBefore]++
		Trace[idx].Result = "crash-before"
		crash(idx)
	}
	if f := faultAt(idx, Fail); f != nil {
		Fired[Fail+":"+f.Errno]++
		Trace[idx].Result = "fail:" + f.Errno
		return idx, errno(f.Errno)
	}
	return idx, nil
}

func end(idx int, err error) {
	if idx < 0 || idx >= len(Trace) {
		return
	}
	if err != nil {
		if Trace[idx].Result == "" {
			Trace[idx].Result = "err"
		}
		return
	}
	if Trace[idx].Result == "" {
		Trace[idx].Result = "ok"
	}
	if f := faultAt(idx, CrashAfter); f != nil {
		Fired[CrashAfter]++
		Trace[idx].Result = "crash-after"
		crash(idx)
	}
}

func pathErr(op, path string, err error) error {
	if errors.Is(err, ErrCrashed) {
		return err
	}
	return &fs.PathError{Op: op, Path: path, Err: err}
}

// File wraps *os.File (or a standard stream).
type File struct {
	f    *os.File
	name string
	std  int // 0,1,2 for standard streams when f == nil
	read int // bytes delivered so far (streams)
}

func wrap(f *os.File) *File {
	if f == nil {
		return nil
	}
	return &File{f: f, name: f.Name(), std: -1}
}

// Name returns the file name.
func (f *File) Name() string { return f.name }

// Fd returns the descriptor (or ^0 for simulated streams).
func (f *File) Fd() uintptr {
	if f.f != nil {
		return f.f.Fd()
	}
	return ^uintptr(0)
}

func (f *File) Read(p []byte) (int, error) {
	if f.f == nil {
		if f.std != 0 {
			return 0, pathErr("read", f.name, syscall.EBADF)
		}
		idx, err := begin("read", f.name, false, len(p))
		if err != nil {
			if idx >= 0 {
				return 0, pathErr("read", f.name, err)
			}
			return 0, err
		}
		n, err := stdinR.Read(p)
		f.read += n
		Trace[idx].N = n
		end(idx, nil)
		return n, err
	}
	idx, err := begin("read", f.name, false, len(p))
	if err != nil {
		return 0, pathErr("read", f.name, err)
	}
	n, err := f.f.Read(p)
	if err == io.EOF {
		end(idx, nil)
		return n, err
	}
	end(idx, err)
	return n, err
}

func (f *File) Write(p []byte) (int, error) {
	if f.f == nil {
		return f.writeStd(p)
	}
	idx, err := begin("write", f.name, true, len(p))
	if err != nil {
		return 0, pathErr("write", f.name, err)
	}
	if ft := faultAt(idx, Torn); ft != nil {
		n := clamp(ft.Bytes, len(p))
		if n > 0 {
			f.f.Write(p[:n]) //nolint:errcheck
		}
		Fired[Torn]++
		Trace[idx].Result = fmt.Sprintf("torn:%d", n)
		crash(idx)
	}
	if ft := faultAt(idx, ShortWrite); ft != nil {
		n := clamp(ft.Bytes, len(p))
		if n > 0 {
			f.f.Write(p[:n]) //nolint:errcheck
		}
		Fired[ShortWrite+":"+ft.Errno]++
		Trace[idx].Result = fmt.Sprintf("short:%d:%s", n, ft.Errno)
		return n, pathErr("write", f.name, errno(ft.Errno))
	}
	n, err := f.f.Write(p)
	end(idx, err)
	return n, err
}

func (f *File) writeStd(p []byte) (int, error) {
	if Crashed {
		return 0, ErrCrashed
	}
	var b *bytes.Buffer
	switch f.std {
	case 1:
		b = &StdoutB
	case 2:
		b = &StderrB
	default:
		return 0, pathErr("write", f.name, syscall.EBADF)
	}
	if f.std == 1 && StdoutFault != "" {
		room := StdoutLimit - b.Len()
		if room < len(p) {
			if room < 0 {
				room = 0
			}
			b.Write(p[:room])
			Fired["stdout:"+StdoutFault]++
			return room, pathErr("write", f.name, errno(StdoutFault))
		}
	}
	if b.Len() > 32<<20 {
		// runaway output: keep the first 32 MB, count the rest (a resource guard, not a fault)
		Fired["stdout-capture-capped"]++
		return len(p), nil
	}
	return b.Write(p)
}

// WriteString writes a string.
func (f *File) WriteString(s string) (int, error) { return f.Write([]byte(s)) }

// Close closes the file.
func (f *File) Close() error {
	if f.f == nil {
		return nil
	}
	idx, err := begin("close", f.name, true, 0)
	if err != nil {
		if idx >= 0 {
			// a failed close still releases the descriptor
			f.f.Close() //nolint:errcheck
		}
		return pathErr("close", f.name, err)
	}
	if ft := faultAt(idx, CloseLoss); ft != nil {
		if st, serr := f.f.Stat(); serr == nil {
			sz := st.Size() - int64(ft.Bytes)
			if sz < 0 {
				sz = 0
			}
			f.f.Truncate(sz) //nolint:errcheck
		}
		f.f.Close() //nolint:errcheck
		Fired[CloseLoss+":"+ft.Errno]++
		Trace[idx].Result = fmt.Sprintf("close-loss:%d:%s", ft.Bytes, ft.Errno)
		return pathErr("close", f.name, errno(ft.Errno))
	}
	err = f.f.Close()
	end(idx, err)
	return err
}

// Sync flushes the file.
func (f *File) Sync() error {
	if f.f == nil {
		return nil
	}
	idx, err := begin("fsync", f.name, false, 0)
	if err != nil {
		return pathErr("sync", f.name, err)
	}
	err = f.f.Sync()
	end(idx, err)
	return err
}

// Chmod changes the mode.
func (f *File) Chmod(m os.FileMode) error {
	if f.f == nil {
		return pathErr("chmod", f.name, syscall.EINVAL)
	}
	idx, err := begin("fchmod", f.name, true, int(m))
	if err != nil {
		return pathErr("chmod", f.name, err)
	}
	err = f.f.Chmod(m)
	end(idx, err)
	return err
}

// Chown changes the owner.
func (f *File) Chown(uid, gid int) error {
	if f.f == nil {
		return pathErr("chown", f.name, syscall.EINVAL)
	}
	idx, err := begin("fchown", f.name, true, 0)
	if err != nil {
		return pathErr("chown", f.name, err)
	}
	err = f.f.Chown(uid, gid)
	end(idx, err)
	return err
}

// Stat stats the file.
func (f *File) Stat() (os.FileInfo, error) {
	if f.f == nil {
		return nil, pathErr("stat", f.name, syscall.EINVAL)
	}
	idx, err := begin("fstat", f.name, false, 0)
	if err != nil {
		return nil, pathErr("stat", f.name, err)
	}
	fi, err := f.f.Stat()
	end(idx, err)
	return fi, err
}

// Truncate truncates the file.
func (f *File) Truncate(size int64) error {
	if f.f == nil {
		return pathErr("truncate", f.name, syscall.EINVAL)
	}
	idx, err := begin("ftruncate", f.name, true, int(size))
	if err != nil {
		return pathErr("truncate", f.name, err)
	}
	err = f.f.Truncate(size)
	end(idx, err)
	return err
}

// Seek seeks.
func (f *File) Seek(off int64, whence int) (int64, error) {
	if f.f == nil {
		return 0, pathErr("seek", f.name, syscall.ESPIPE)
	}
	if Crashed {
		return 0, ErrCrashed
	}
	return f.f.Seek(off, whence)
}

// WriteAt writes at an offset.
func (f *File) WriteAt(p []byte, off int64) (int, error) {
	if f.f == nil {
		return 0, pathErr("write", f.name, syscall.ESPIPE)
	}
	idx, err := begin("pwrite", f.name, true, len(p))
	if err != nil {
		return 0, pathErr("write", f.name, err)
	}
	if ft := faultAt(idx, Torn); ft != nil {
		n := clamp(ft.Bytes, len(p))
		if n > 0 {
			f.f.WriteAt(p[:n], off) //nolint:errcheck
		}
		Fired[Torn]++
		crash(idx)
	}
	n, err := f.f.WriteAt(p, off)
	end(idx, err)
	return n, err
}

// ReadAt reads at an offset.
func (f *File) ReadAt(p []byte, off int64) (int, error) {
	if f.f == nil {
		return 0, pathErr("read", f.name, syscall.ESPIPE)
	}
	if Crashed {
		return 0, ErrCrashed
	}
	return f.f.ReadAt(p, off)
}

// ReadDir reads directory entries.
func (f *File) ReadDir(n int) ([]os.DirEntry, error) {
	if f.f == nil {
		return nil, pathErr("readdir", f.name, syscall.ENOTDIR)
	}
	if Crashed {
		return nil, ErrCrashed
	}
	return f.f.ReadDir(n)
}

// Readdir reads directory entries.
func (f *File) Readdir(n int) ([]os.FileInfo, error) {
	if f.f == nil {
		return nil, pathErr("readdir", f.name, syscall.ENOTDIR)
	}
	if Crashed {
		return nil, ErrCrashed
	}
	return f.f.Readdir(n)
}

func clamp(n, max int) int {
	if n < 0 {
		return 0
	}
	if n > max {
		return max
	}
	return n
}

// ReadFile is os.ReadFile.
func ReadFile(name string) ([]byte, error) {
	idx, err := begin("readfile", name, false, 0)
	if err != nil {
		return nil, pathErr("open", name, err)
	}
	b, err := os.ReadFile(name)
	Trace[idx].N = len(b)
	end(idx, err)
	return b, err
}

// WriteFile is os.WriteFile, decomposed so that faults can land inside it.
func WriteFile(name string, data []byte, perm os.FileMode) error {
	f, err := OpenFile(name, os.O_WRONLY|os.O_CREATE|os.O_TRUNC, perm)
	if err != nil {
		return err
	}
	_, err = f.Write(data)
	if err1 := f.Close(); err1 != nil && err == nil {
		err = err1
	}
	return err
}

// Create is os.Create.
func Create(name string) (*File, error) {
	return OpenFile(name, os.O_RDWR|os.O_CREATE|os.O_TRUNC, 0o666)
}

// Open is os.Open.
func Open(name string) (*File, error) { return OpenFile(name, os.O_RDONLY, 0) }

// OpenFile is os.OpenFile.
func OpenFile(name string, flag int, perm os.FileMode) (*File, error) {
	mut := flag&(os.O_WRONLY|os.O_RDWR|os.O_CREATE|os.O_TRUNC|os.O_APPEND) != 0
	opname := "open"
	if flag&os.O_TRUNC != 0 {
		opname = "open-trunc"
	} else if flag&os.O_CREATE != 0 {
		opname = "open-create"
	} else if mut {
		opname = "open-write"
	}
	idx, err := begin(opname, name, mut, int(perm))
	if err != nil {
		return nil, pathErr("open", name, err)
	}
	f, err := os.OpenFile(name, flag, perm)
	end(idx, err)
	if err != nil {
		return nil, err
	}
	return wrap(f), nil
}

// CreateTemp is os.CreateTemp with names drawn from the schedule's PRNG.
func CreateTemp(dir, pattern string) (*File, error) {
	if dir == "" {
		dir = os.TempDir()
	}
	prefix, suffix := pattern, ""
	if i := strings.LastIndex(pattern, "*"); i >= 0 {
		prefix, suffix = pattern[:i], pattern[i+1:]
	}
	idx, err := begin("createtemp", filepath.Join(dir, pattern), true, 0)
	if err != nil {
		return nil, pathErr("createtemp", filepath.Join(dir, pattern), err)
	}
	for try := 0; try < 1000; try++ {
		name := filepath.Join(dir, fmt.Sprintf("%s%010d%s", prefix, rng.Uint64()%10_000_000_000, suffix))
		f, err := os.OpenFile(name, os.O_RDWR|os.O_CREATE|os.O_EXCL, 0o600)
		if os.IsExist(err) {
			continue
		}
		if err == nil {
			Trace[idx].Path = rel(name)
		}
		end(idx, err)
		if err != nil {
			return nil, err
		}
		return wrap(f), nil
	}
	end(idx, syscall.EEXIST)
	return nil, pathErr("createtemp", dir, syscall.EEXIST)
}

func pathOp(opname, goop, name string, mut bool, n int, do func() error) error {
	idx, err := begin(opname, name, mut, n)
	if err != nil {
		return pathErr(goop, name, err)
	}
	err = do()
	end(idx, err)
	return err
}

// Rename is os.Rename.
func Rename(oldpath, newpath string) error {
	idx, err := begin("rename", oldpath+" -> "+rel(newpath), true, 0)
	if err != nil {
		if idx < 0 {
			return err
		}
		return &os.LinkError{Op: "rename", Old: oldpath, New: newpath, Err: err}
	}
	Trace[idx].Path = rel(oldpath) + " -> " + rel(newpath)
	err = os.Rename(oldpath, newpath)
	end(idx, err)
	return err
}

// Remove is os.Remove.
func Remove(name string) error {
	return pathOp("remove", "remove", name, true, 0, func() error { return os.Remove(name) })
}

// RemoveAll is os.RemoveAll.
func RemoveAll(name string) error {
	return pathOp("removeall", "remove", name, true, 0, func() error { return os.RemoveAll(name) })
}

// Chmod is os.Chmod.
func Chmod(name string, mode os.FileMode) error {
	return pathOp("chmod", "chmod", name, true, int(mode), func() error { return os.Chmod(name, mode) })
}

// Chown is os.Chown.
func Chown(name string, uid, gid int) error {
	return pathOp("chown", "chown", name, true, 0, func() error { return os.Chown(name, uid, gid) })
}

// Truncate is os.Truncate.
func Truncate(name string, size int64) error {
	return pathOp("truncate", "truncate", name, true, int(size), func() error { return os.Truncate(name, size) })
}

// Link is os.Link.
func Link(oldname, newname string) error {
	return pathOp("link", "link", newname, true, 0, func() error { return os.Link(oldname, newname) })
}

// Symlink is os.Symlink.
func Symlink(oldname, newname string) error {
	return pathOp("symlink", "symlink", newname, true, 0, func() error { return os.Symlink(oldname, newname) })
}

// Mkdir is os.Mkdir.
func Mkdir(name string, perm os.FileMode) error {
	return pathOp("mkdir", "mkdir", name, true, 0, func() error { return os.Mkdir(name, perm) })
}

// MkdirAll is os.MkdirAll.
func MkdirAll(name string, perm os.FileMode) error {
	return pathOp("mkdirall", "mkdir", name, true, 0, func() error { return os.MkdirAll(name, perm) })
}

// Stat is os.Stat.
func Stat(name string) (os.FileInfo, error) {
	idx, err := begin("stat", name, false, 0)
	if err != nil {
		return nil, pathErr("stat", name, err)
	}
	fi, err := os.Stat(name)
	end(idx, err)
	return fi, err
}

// Lstat is os.Lstat.
func Lstat(name string) (os.FileInfo, error) {
	idx, err := begin("lstat", name, false, 0)
	if err != nil {
		return nil, pathErr("lstat", name, err)
	}
	fi, err := os.Lstat(name)
	end(idx, err)
	return fi, err
}

// Exit is os.Exit: it unwinds to the driver.
func Exit(code int) {
	panic(ExitPanic{Code: code})
}
