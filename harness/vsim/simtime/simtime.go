// Package simtime is the virtual clock. In the rewritten evy sources
// time.Now, time.Since, time.Until and time.Sleep are redirected here; every
// deadline in the system therefore reads this clock.
package simtime

import "time"

var (
	// Epoch is the virtual wall-clock origin in ns since 1970 (part of the schedule).
	Epoch int64 = 1_700_000_000_000_000_000
	// NowNs is virtual time elapsed since the run started.
	NowNs int64
	// CostNs is charged on every reading of the clock so that CPU time exists.
	CostNs int64
	// OnSleep, if set, is called instead of just advancing the clock. It must
	// advance NowNs by d itself (the browser model runs JS tasks meanwhile).
	OnSleep func(d time.Duration)
	// Reads counts clock readings, Sleeps counts sleeps, SleptNs their sum.
	Reads, Sleeps int64
	// ZeroSleeps counts sleeps of zero or negative duration (they do not yield).
	ZeroSleeps int64
	SleptNs    int64
)

// Reset restarts the clock.
func Reset(epoch, cost int64) {
	Epoch, CostNs, NowNs = epoch, cost, 0
	OnSleep = nil
	Reads, Sleeps, SleptNs = 0, 0, 0
	Steps, StepCostNs, OnTick = 0, 0, nil
}

// Now is time.Now on the virtual clock.
func Now() time.Time {
	Reads++
	NowNs += CostNs
	return time.Unix(0, Epoch+NowNs)
}

// Since is time.Since on the virtual clock.
func Since(t time.Time) time.Duration { return Now().Sub(t) }

// Until is time.Until on the virtual clock.
func Until(t time.Time) time.Duration { return t.Sub(Now()) }

// Sleep is time.Sleep on the virtual clock.
func Sleep(d time.Duration) {
	Sleeps++
	if d <= 0 {
		// like time.Sleep: returns at once, nobody else gets a turn
		ZeroSleeps++
		return
	}
	SleptNs += int64(d)
	if OnSleep != nil {
		OnSleep(d)
		return
	}
	NowNs += int64(d)
}

var (
	// Steps counts evaluation steps (calls of the platform yielder's Yield).
	Steps int64
	// StepCostNs is charged per evaluation step.
	StepCostNs int64
	// OnTick, if set, is called on every step (the simulator may abort a run from here).
	OnTick func()
)

// Tick is inserted by xform at the top of pkg/wasm's Yield methods.
func Tick() {
	Steps++
	NowNs += StepCostNs
	if OnTick != nil {
		OnTick()
	}
}
