// Package simrand replaces the auto-seeded top-level functions of math/rand
// in the rewritten evy sources. The seed is part of the schedule, so a result
// that depends on the global source differs between schedules
// deterministically.
package simrand

import "math/rand"

var src = rand.New(rand.NewSource(1))

// Calls counts uses of the global source.
var Calls int64

// Reset reseeds the global source.
func Reset(seed int64) { src = rand.New(rand.NewSource(seed)); Calls = 0 }

func Seed(seed int64)                 { Calls++; src.Seed(seed) }
func Int() int                        { Calls++; return src.Int() }
func Intn(n int) int                  { Calls++; return src.Intn(n) }
func Int31() int32                    { Calls++; return src.Int31() }
func Int31n(n int32) int32            { Calls++; return src.Int31n(n) }
func Int63() int64                    { Calls++; return src.Int63() }
func Int63n(n int64) int64            { Calls++; return src.Int63n(n) }
func Uint32() uint32                  { Calls++; return src.Uint32() }
func Uint64() uint64                  { Calls++; return src.Uint64() }
func Float32() float32                { Calls++; return src.Float32() }
func Float64() float64                { Calls++; return src.Float64() }
func NormFloat64() float64            { Calls++; return src.NormFloat64() }
func ExpFloat64() float64             { Calls++; return src.ExpFloat64() }
func Perm(n int) []int                { Calls++; return src.Perm(n) }
func Shuffle(n int, f func(i, j int)) { Calls++; src.Shuffle(n, f) }
