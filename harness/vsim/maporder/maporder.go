// Package maporder is the seam behind every `range` over a Go map in the
// rewritten evy sources. The xform tool replaces `range m` by
// `range maporder.Range(m, site)`; the order in which the keys are produced
// is decided by the current schedule, never by the Go runtime.
//
// The loop stays inside what Go allows: keys are snapshotted when the loop
// starts, entries deleted meanwhile are skipped, entries added meanwhile are
// not produced (Go may or may not produce them), values are read when the
// entry is reached.
package maporder

import (
	"fmt"
	"iter"
	"reflect"
	"sort"

	"evylang.dev/evy/vsim/prng"
)

// Policy kinds.
const (
	Asc     = "asc"
	Desc    = "desc"
	Rot     = "rot"
	Shuffle = "shuffle"
)

// Policy says how the canonical (sorted) key order is permuted.
type Policy struct {
	Kind string `json:"kind"`
	Seed uint64 `json:"seed,omitempty"`
	Rot  int    `json:"rot,omitempty"`
}

// Override fixes the policy of one site (all visits, or one visit if Visit>0).
type Override struct {
	Site   int    `json:"site"`
	Visit  int    `json:"visit,omitempty"` // 1-based; 0 = every visit
	Policy Policy `json:"policy"`
}

// Schedule is the map-order part of a schedule.
type Schedule struct {
	Default   Policy     `json:"default"`
	Overrides []Override `json:"overrides,omitempty"`
}

// SiteStat counts how a site was reached in the current run.
type SiteStat struct {
	Visits       int
	Visits2      int // visits with >= 2 keys
	MaxKeys      int
	Uncontrolled bool
}

var (
	sched     = Schedule{Default: Policy{Kind: Asc}}
	visits    []int
	stats     []SiteStat
	digest    uint64
	decisions int
	// Sites is filled by the generated file sites_gen.go: index = site id.
	Sites []string
)

// Reset installs a schedule and clears the per-run counters.
func Reset(s Schedule) {
	if s.Default.Kind == "" {
		s.Default.Kind = Asc
	}
	sched = s
	n := len(Sites) + 1
	if len(visits) < n {
		visits = make([]int, n)
		stats = make([]SiteStat, n)
	}
	for i := range visits {
		visits[i] = 0
		stats[i] = SiteStat{}
	}
	digest = 0
	decisions = 0
}

// Stats returns the per-site counters of the current run (index = site id).
func Stats() []SiteStat { return stats }

// Digest identifies the sequence of (site, visit, nkeys, permutation) decisions
// with >= 2 keys taken in the current run.
func Digest() (uint64, int) { return digest, decisions }

func grow(site int) {
	for len(visits) <= site {
		visits = append(visits, 0)
		stats = append(stats, SiteStat{})
	}
}

func policyFor(site, visit int) Policy {
	p := sched.Default
	for i := range sched.Overrides {
		o := &sched.Overrides[i]
		if o.Site == site && (o.Visit == 0 || o.Visit == visit) {
			p = o.Policy
		}
	}
	return p
}

// Range is what rewritten loops iterate over.
func Range[M ~map[K]V, K comparable, V any](m M, site int) iter.Seq2[K, V] {
	return func(yield func(K, V) bool) {
		keys := Keys(m, site)
		for _, k := range keys {
			v, ok := m[k]
			if !ok {
				continue
			}
			if !yield(k, v) {
				return
			}
		}
	}
}

// Keys returns the keys of m in the order the schedule prescribes for this
// visit of site.
func Keys[M ~map[K]V, K comparable, V any](m M, site int) []K {
	if site < 0 {
		site = 0
	}
	grow(site)
	visits[site]++
	visit := visits[site]
	st := &stats[site]
	st.Visits++
	n := len(m)
	if n > st.MaxKeys {
		st.MaxKeys = n
	}
	keys := make([]K, 0, n)
	for k := range m { // native order; canonicalised below
		keys = append(keys, k)
	}
	if n < 2 {
		return keys
	}
	st.Visits2++
	controlled := canonical(keys)
	pol := policyFor(site, visit)
	if !controlled {
		// keys cannot be ordered canonically: the native order is all there
		// is; shuffle it from the schedule so that at least the choice among
		// orders is seeded. Reported as an uncontrolled site.
		st.Uncontrolled = true
	}
	var perm []int
	switch pol.Kind {
	case Desc:
		for i, j := 0, n-1; i < j; i, j = i+1, j-1 {
			keys[i], keys[j] = keys[j], keys[i]
		}
	case Rot:
		r := pol.Rot % n
		if r < 0 {
			r += n
		}
		rot := make([]K, 0, n)
		rot = append(rot, keys[r:]...)
		rot = append(rot, keys[:r]...)
		keys = rot
	case Shuffle:
		rng := prng.Derive(pol.Seed, uint64(site), uint64(visit))
		perm = rng.Perm(n)
		sh := make([]K, n)
		for i, p := range perm {
			sh[i] = keys[p]
		}
		keys = sh
	}
	h := prng.Mix(digest, uint64(site), uint64(visit), uint64(n), prng.HashString(pol.Kind), uint64(pol.Rot))
	for _, p := range perm {
		h = prng.Mix(h, uint64(p))
	}
	digest = h
	decisions++
	return keys
}

// canonical sorts keys if their kind has a natural order and reports whether
// it could.
func canonical[K comparable](keys []K) bool {
	switch ks := any(keys).(type) {
	case []string:
		sort.Strings(ks)
		return true
	case []int:
		sort.Ints(ks)
		return true
	}
	kind := reflect.TypeOf(keys).Elem().Kind()
	switch kind {
	case reflect.String:
		sort.Slice(keys, func(i, j int) bool {
			return reflect.ValueOf(keys[i]).String() < reflect.ValueOf(keys[j]).String()
		})
		return true
	case reflect.Int, reflect.Int8, reflect.Int16, reflect.Int32, reflect.Int64:
		sort.Slice(keys, func(i, j int) bool {
			return reflect.ValueOf(keys[i]).Int() < reflect.ValueOf(keys[j]).Int()
		})
		return true
	case reflect.Uint, reflect.Uint8, reflect.Uint16, reflect.Uint32, reflect.Uint64, reflect.Uintptr:
		sort.Slice(keys, func(i, j int) bool {
			return reflect.ValueOf(keys[i]).Uint() < reflect.ValueOf(keys[j]).Uint()
		})
		return true
	case reflect.Float32, reflect.Float64:
		sort.Slice(keys, func(i, j int) bool {
			return reflect.ValueOf(keys[i]).Float() < reflect.ValueOf(keys[j]).Float()
		})
		return true
	case reflect.Bool:
		sort.Slice(keys, func(i, j int) bool {
			return !reflect.ValueOf(keys[i]).Bool() && reflect.ValueOf(keys[j]).Bool()
		})
		return true
	}
	// last resort: order by printed form if it is address-free (structs of
	// basic fields); pointers and interfaces holding pointers are not.
	if kind == reflect.Struct || kind == reflect.Array {
		sort.Slice(keys, func(i, j int) bool {
			return fmt.Sprintf("%#v", keys[i]) < fmt.Sprintf("%#v", keys[j])
		})
		return true
	}
	return false
}

// SiteName returns the source position of a site id.
func SiteName(site int) string {
	if site >= 0 && site < len(Sites) {
		return Sites[site]
	}
	return fmt.Sprintf("site#%d", site)
}
