ENGINES = [
 {"name": "evysim-L1", "path": "harness/vdrv", "serves_properties": ["C02", "C08", "C14", "C15"], "kind_free_text": "deterministic simulation: real lexer/parser/evaluator under a simulated platform (effects, scripted input, virtual clock, numbered fault points), seeded scheduler, explicit JSON scenarios as replay files, ddmin minimiser, worker OS processes"},
 {"name": "xform", "path": "xform", "serves_properties": ["C14"], "kind_free_text": "go/packages source rewriter that inserts the seams into a scratch copy of /repo"},
]
ENGINES.append({"name": "simos", "path": "harness/vsim/simos", "serves_properties": ["C02", "C18"], "kind_free_text": "fault- and crash-injecting file/process seam over a real directory: numbered decision points before, inside and after every os call of package main and pkg/cli; strace-based conformance layer on the real binary"})
ENGINES.append({"name": "sealfault", "path": "harness/vdrvlearn", "serves_properties": ["C20"], "kind_free_text": "stored-value corruption enumerator and entropy-fault injector around learn.Encrypt/Decrypt/Seal/Unseal/Verify (real code, real RSA/AES), with generated question files for the verification clause"})
NOTES = "Fix commits in /repo: see known_findings.json. "

claim("C14", "fault_enumeration",
 "For every program of the workload the stop flag is raised inside every fault point of its run (each Yield, Sleep, Read poll and idle moment; exhaustively for runs up to the tier's limit, sampled beyond) and the interrupted run is compared with the uninterrupted one: result is 'stopped', nothing is evaluated and no effect happens after the raise (only the test summary), effects before it are a prefix. Probe programs with statically known trip/call counts decide 'yields at least once per iteration and call'. Sampling over programs, exhaustive over crash points of each sampled program.",
 "The platform raises Stopped only while it has control (Yield, Sleep, blocked Read, idle). SimPlatform is a stub of the browser; the event loop of pkg/wasm is mirrored by the driver at this level.",
 "deterministic simulation, stop-fault enumeration at every yield point, prefix oracle vs uninterrupted run",
 "DESIGN.md §5.3", "evysim-L1")

claim("C08", "exploration",
 "Seeded search over schedules: every (source, inputs, events, rand seed) case is executed under K schedules that decide the iteration order of every range-over-map statement in the evy sources (ascending, descending, rotations, seeded shuffles, single-site flips), the virtual clock epoch, the seed of the global math/rand source and the heap layout; parse errors, formatted text, effect trace and final result must be byte-identical. Any disagreement is a violation by the property's own wording; the minimiser reduces it to plain-ascending vs. one flipped range statement. A cross-process layer repeats a sample natively (unrewritten tree, fresh processes, GOMAXPROCS 1/4/16) as a net under the seams.",
 "Determinism of the harness itself (self-test). Order of EventHandlerNames/CalledBuiltinFuncs is not an observable. Map types whose keys have no canonical order would be 'uncontrolled sites' (none exists today).",
 "deterministic simulation with a map-iteration-order scheduler seam, schedule-independence oracle",
 "DESIGN.md §5.2", "evysim-L1")

claim("C15", "exploration",
 "Seeded search over event histories: for each (program with handlers, inputs, rand seed) and each history of 0..40 key/down/up/move/animate/input events with payloads from adversarial pools, the run under the simulated event loop is compared with a reference run of the same evaluator on a textually derived program in which every handler is a procedure and one call per event is appended - the property's own definition. Effects, order, payload binding, `_`/parameterless handlers, fresh local scope and shared globals all show in the trace comparison.",
 "The event loop at this level is the driver's mirror of pkg/wasm handleEvents (one event at a time, registered handlers only). Programs using `test` are excluded; the reference derivation is textual.",
 "deterministic simulation of event histories against an executable reference model (handlers as procedures)",
 "DESIGN.md §5.4", "evysim-L1")

claim("C18", "fault_enumeration",
 "The real `evy fmt` command (kong parsing, fmtCmd.Run, format, writeAtomically) runs in-process on a real directory behind the simos seam. For every sampled scenario (argv with -w/-c/none, 0-3 .evy/.txtar files with content and mode, or stdin) the fault-free operation trace is recorded and its whole single-fault space is executed: crash before/after every operation, failure of every operation with every errno, torn and short writes, data-losing close; plus seeded two-fault sequences. After every run the directory is inspected: content is exactly the original or exactly the reference formatted text, mode unchanged, unparsable files untouched with non-zero status, -c truthful and non-mutating. A conformance layer runs the real binary under strace error/SIGKILL injection.",
 "A killed process loses nothing the kernel already accepted (no power-loss model). Process exit and os calls are reached through the simos seam in-process; the strace layer validates that picture on the real binary when ptrace is available.",
 "deterministic simulation with crash/errno/torn-write fault enumeration over the command's file-operation trace",
 "DESIGN.md §5.5", "simos")

claim("C20", "fault_enumeration",
 "For every sampled sealed value the single-byte damage space is executed completely (every bit flip, byte overwrites, every truncation, deletion, insertion, length-field and segment damage, base64 text damage incl. padding and whitespace) plus every wrong fixture key and garbage keys: Decrypt must return an error or the original, never another text, never panic. Round trips over answer pools (1 byte to 64 kB, any bytes) and key sizes; Seal/Unseal idempotence on real front matters; a seeded entropy source that fails or runs short must make Encrypt fail. Verification: generated question files (inline-code and really executed evy choices, sealed and unsealed) are verified for every subset of marked answers against every assignment of outputs: Verify()==nil iff marked == matching; corrupted sealed files must be rejected or give the uncorrupted verdict.",
 "Pre-generated RSA fixture keys (crypto/rsa key generation cannot be made deterministic). The verification clause has no fault dimension of its own; it is enumerated in the fault-free configuration inside the same pipeline.",
 "stored-value corruption enumeration and entropy-fault injection with a reject-or-original oracle; subset enumeration for verification",
 "DESIGN.md §5.6", "sealfault")

claim("C02", "exploration",
 "Scoped claim: the part of 'accepted programs never go wrong' that arrives through the platform boundary. Seeded search over simulated platform behaviours: accepted programs (generated, corpus) run under the simulated platform with input scripts that may be too short, event histories with adversarial payloads (NaN, infinities, -0, huge, empty and non-ASCII strings) and a stop at a seeded fault point; and the real `evy run` command runs on the real terminal platform with stdin delivered in seeded chunks that ends after any byte (mid-line, before the first byte, CRLF) and a stdout that may fail. Monitor: allowed end class only, no internal error, no Go panic, surviving process, 'stopped' only after a stop, declared types for values that crossed the boundary.",
 "Type soundness over all programs as a pure function of the program text is NOT decided here (that needs an independent semantics oracle; see DESIGN.md §5.1). Unregistered events and wrong-arity payloads are not legal platform behaviour and are not injected.",
 "deterministic simulation of platform behaviours (input end, chunking, payloads, stop) with an outcome-class monitor",
 "DESIGN.md §5.1", "evysim-L1")
