#!/usr/bin/env bash
# Determinism self-test: the same seed must give byte-identical results
# (all counters, all case hashes, all schedule hashes, all verdicts) whatever
# the number of worker processes and GOMAXPROCS. Layers that observe
# nondeterminism they do not control (strace, native processes) are switched off.
# usage: ./selftest-determinism.sh [seeds...]
set -u
cd "$(dirname "$0")" || exit 2
. ./lib.sh
seeds=${*:-"11 12 13"}
build_xform
S=$(mktemp -d /tmp/evyverif-det.XXXXXX) || exit 2
trap 'rm -rf "$S"' EXIT
make_scratch "$S"; build_drv "$S"; build_drv_learn "$S"
fail=0
for prop in C02 C08 C14 C15 C18 C20; do
	bin="$S/bin/drv"; limit=400
	[ $prop = C20 ] && bin="$S/bin/drvlearn" && limit=60
	[ $prop = C18 ] && limit=48
	[ $prop = C14 ] && limit=484
	for seed in $seeds; do
		ref=""
		for cfg in "1 1" "16 1" "5 4" "16 16"; do
			set -- $cfg
			out="$S/dump-$prop-$seed-$1-$2.json"
			VERIF_NO_CONFORM=1 VERIF_DUMP="$out" VERIF_KEYS="$VERIF/fixtures/keys.json" GOMAXPROCS=$2 \
				"$bin" -prop $prop -tier quick -seed $seed -workers $1 -limit $limit -outdir "$S/out-$prop-$seed-$1-$2" \
				-evidence "$S/ev.json" -replays "$S/replays" -known "$VERIF/known_findings.json" -corpus "$VERIF/corpus" -scratch "$S" >/dev/null 2>&1
			[ -s "$out" ] || { echo "NO OUTPUT $prop seed=$seed workers=$1 procs=$2"; fail=1; continue; }
			if [ -z "$ref" ]; then ref="$out"; elif ! cmp -s "$ref" "$out"; then echo "NONDETERMINISTIC $prop seed=$seed: $ref vs $out"; fail=1; cp "$ref" "$out" /tmp/ 2>/dev/null; fi
		done
		echo "ok $prop seed=$seed ($(jq -r '.counters.evaluations' "$ref") evaluations, $(jq -r '.hashes|length' "$ref") case hashes identical over 4 configurations)"
	done
done
exit $fail
