#!/usr/bin/env bash
# Replay self-test: for one mutant per property, the check must produce a replay file that
# (a) reproduces the violation when replayed against the mutated tree (exit 1, VIOLATION line),
# (b) reproduces it again identically (same signature), and
# (c) does not reproduce on the unchanged tree (exit 0).
cd "$(dirname "$0")" || exit 2
git -C /repo diff --quiet || { echo "/repo has local changes"; exit 2; }
fail=0
for row in C14:c14-no-stop-check-after-builtin C14:c14-wasm-handleevents-ignores-stop C08:c08-unused-order-from-map C08:c08-rand1-global-source C15:c15-underscore-shifts-args C15:c15-wasm-lifo-queue C18:c18-ignore-close-error C18:c18-check-also-writes C20:c20-ignore-gcm-open-error C20:c20-verify-second-if-removed C02:c02-handleevent-index-beyond; do
	prop=${row%%:*}; name=${row##*:}
	rm -f replays/$prop-*.json
	git -C /repo apply "$PWD/mutants/$name.patch" || { echo "cannot apply $name"; fail=1; continue; }
	./check $prop quick >/dev/null 2>&1
	n=0
	for f in replays/$prop-*.json; do
		[ -f "$f" ] || continue
		n=$((n+1))
		o1=$(./check replay "$f" 2>&1); r1=$?
		o2=$(./check replay "$f" 2>&1); r2=$?
		s1=$(echo "$o1" | grep -o "signature=[^ ]*" | head -1); s2=$(echo "$o2" | grep -o "signature=[^ ]*" | head -1)
		if [ $r1 -ne 1 ] || [ $r2 -ne 1 ] || [ "$s1" != "$s2" ]; then echo "REPLAY-FAIL $prop $name $f: rc=$r1,$r2 sig=$s1,$s2"; fail=1; fi
	done
	git -C /repo checkout -- .
	for f in replays/$prop-*.json; do
		[ -f "$f" ] || continue
		./check replay "$f" >/dev/null 2>&1; r3=$?
		if [ $r3 -ne 0 ]; then echo "REPLAY-FALSE-ALARM $prop $name $f reproduces on the unchanged tree (rc=$r3)"; fail=1; fi
	done
	echo "ok $prop $name: $n replay file(s) reproduce on the mutant twice with the same signature and not on the unchanged tree"
	rm -f replays/$prop-*.json
done
exit $fail
