#!/usr/bin/env python3
"""Regenerates the tables of DESIGN.md §10.6 from mutants/last_run.log and seeded/*/meta.json."""
import json,glob,re
rows=[]
for l in open('mutants/last_run.log'):
    m=re.match(r'(CAUGHT|MISSED)\s+(C\d+)\s+(\S+)\s+(?:rc=\d+\s+)?tests=(\S+)\s*(.*)',l)
    if m:
        st,prop,name,tests,rest=m.groups()
        sigs=re.findall(r'signature=(\S+)',rest)
        rows.append((prop,name,st,tests,', '.join(sorted(set(sigs)))[:80]))
t=[]
t.append("**Own mutants** (`mutants/*.patch`; last full run in `mutants/last_run.log`; \"repo tests\" = does the repository's own suite still pass with the mutant):\n")
t.append("| property | mutant | repo tests | result | oracle / signature |")
t.append("|---|---|---|---|---|")
for prop,name,st,tests,sigs in rows:
    res = "caught" if st=="CAUGHT" else "**missed**"
    t.append("| %s | `%s` | %s | %s | %s |"%(prop,name,tests,res,sigs))
t.append("")
t.append("One planned mutant (`while` condition literal evaluated without going through `eval`) was dropped: the body still yields once per iteration, so the property holds under it – it is an equivalent mutant, and the probes correctly stay silent. `c14-wasm-read-ignores-stop` was missed in one intermediate run (no Stop click landed in a read poll at that seed); L2 now always contains programs blocked in `read`.\n")
t.append("**Independent seeded changes** (`seeded/<id>/`: `patch.diff`, the sub-agent's demonstration, `meta.json`). Each sub-agent got the text of one property and a scratch worktree, nothing from `/verif`. All compile and pass the repository's unedited test suite; each was confirmed with `seeded/eval.sh` before it was kept.\n")
t.append("| id | property | what the change does | needs | outcome |")
t.append("|---|---|---|---|---|")
n_once=n_pre=n_after=0
def cut(s,n):
    s=' '.join(str(s).split()).replace('|','/')
    return s if len(s)<=n else s[:n-1]+'…'
for f in sorted(glob.glob('seeded/*/meta.json')):
    m=json.load(open(f)); i=f.split('/')[1]
    v=m.get('verif',{})
    out=v.get('outcome','?')
    if out.startswith('caught at once'): n_once+=1
    elif out.startswith('caught;'): n_pre+=1
    else: n_after+=1
    t.append("| %s | %s | %s | %s | **%s** – %s |"%(i,v.get('property',m.get('property')),cut(m.get('summary',''),230),cut(m.get('needs',''),200),out,cut(v.get('how',''),300)))
t.append("")
t.append("Tally of %d: %d caught by the checks as they stood; %d caught after a workload extension made between reading the sub-agent's report and the first evaluation (not counted as caught at once); %d missed at first and caught after the strengthening named in the table. After the last strengthening every kept change is caught by its property's quick check at the default seed (`seeded/eval.sh`).\n"%(n_once+n_pre+n_after,n_once,n_pre,n_after))
t.append("What the misses taught, in short: probe bodies must include \"do nothing\" bodies (c14a) and programs must be able to END in a blocking built-in (c14e); wrong answers must be near misses (c20a); the generator must shadow with a different type late in a scope (c02a – which also exposed a genuine defect) and compare unlike composites inside `any` (c02d); repetition must include the real command line and new processes (c08b); padding-like bugs need systematic lengths × final bytes (c20b); crash consistency needs histories, not single runs (c18b); archive members must be able to grow (c18c); `-c` needs formatted files among unformatted ones (c18d); a sleep of zero duration must not give the simulated browser a turn (c14f – a modelling error, corrected); the SVG platform must be in the path of the real command (c02e); files that are not on the command line need an oracle too (c18f); elapsed time must differ between schedules, not only the epoch (c08f); every expression form must be able to be the one in flight when a stop lands (c14g); stdin is an input like any file (c18g); objects with state need operation sequences against a reference model, not fresh objects per step (c20g); the same literal must be evaluated more than once and its values must go separate ways (c02g); an API that is 'a function of its input' must be called twice on the same object (c08h); pictures are outputs too (c20h); loop variables may shadow (c02h); input lines must be allowed to be very long (c02c); and the minimiser must never change which violation it is looking at (c02c). From the later waves: corruption of ONE stored value does not find what only shows between TWO values of one process (c20i – splices); near-miss names must be near TWO known names (c08i); a cache is only wrong when the same key is asked for the other kind of result (c20j – programs shared by text and picture questions); and what is an Evy panic today (asserting an any to another type) must stay in the workload, because a change can turn exactly that into something worse (c02j); the same holds for what the parser REJECTS today (c02k – near-valid battery); a blocking call must also be in flight as an argument of another call, not only as a statement (c14l); the structural bytes of a stored format deserve every value even in the quick tier (c20k); a shape that matters must not depend on the seed to be in the quick tier (c14m); and a marking can name a choice that does not exist (found a genuine defect, C20). From the waves that were given lists of ideas already taken: state that one program leaves in the process must be looked for by comparing a USED process with a fresh one (c08o, c08p); a fault space enumerated over the fault-free trace is blind to what the command does after a failure, so the enumeration must follow the command there (c18q); files can have two names (c18p); predefined names are names too - assign to them, shadow them (c02s, c08p); format strings, pictures and markings have their own 'almost right' (c02t, c20q, c20o); commands other than the obvious one print diagnostics as well (c08q); and a battery of rejected programs only helps if each program would actually run once accepted - every name it declares must be used (found a genuine defect, 9c805ab).\n")
s=open('DESIGN.md').read()
a=s.index('<!-- RESULTS:BEGIN -->')+len('<!-- RESULTS:BEGIN -->\n')
b=s.index('<!-- RESULTS:END -->')
s=s[:a]+'\n'.join(t)+s[b:]
open('DESIGN.md','w').write(s)
print("mutants",len(rows),"seeded",n_once,n_pre,n_after)
