#!/usr/bin/env python3
# Writes MANIFEST.json. Edit CLAIMED / NA here, then run.
import json
NA = {
 "C01": "pure function of the program text: expression semantics needs an independent evaluator as oracle (differential testing); no schedule, clock, fault or interleaving is involved",
 "C03": "pure function of the input string: parsing has nothing to schedule or to fail",
 "C04": "pure function of the program text: a finite relation over types, decided by enumeration against the specification, not by simulation",
 "C05": "pure function of the program text: no fault or interleaving can change whether an invalid program is rejected",
 "C06": "pure function of the source text (formatter)",
 "C07": "pure function of the source text (formatter); the file-handling half of evy fmt is C18",
 "C09": "pure function of the program text: aliases are created and observed by one sequential program",
 "C10": "pure function of the program text (scoping, control flow)",
 "C11": "pure function of (container, index)",
 "C12": "sequential data structure driven by one program; handlers never interleave (C15), so there is no interleaving to explore; a model-based sequence test would decide it, which is a different technique",
 "C13": "pure functions of their arguments; what built-ins must return is a documentation oracle, not a simulation result (read/sleep/rand ride along in the C02/C08/C14 workloads, unclaimed)",
 "C16": "differential execution of two pure functions (bytecode VM vs tree walker); no seam",
 "C17": "static well-formedness of emitted code and a sequential API; no seam",
 "C19": "pure function of the drawing-command sequence; writing the file is not part of the statement",
}
PENDING = {}
CLAIMED = {}
def claim(pid, level, text, note, technique, design, engine):
    CLAIMED[pid] = {
        "property_id": pid,
        "quick_cmd": "./check %s quick" % pid,
        "thorough_cmd": "./check %s thorough" % pid,
        "evidence_file": "evidence/%s.json" % pid,
        "replay_cmd_template": "./check replay {path}",
        "engine": engine,
        "level_claimed": {"category": level, "text": text, "design_ref": design},
        "level_note": note,
        "technique": technique,
    }
exec(open('manifest_claims.py').read())
man = {
 "version": 1,
 "setup_cmd": "./check setup",
 "hooks": {
  "guard": "verif",
  "enable": "none needed: every missing seam (map-range order, clock, global rand, os calls, the JS imports of pkg/wasm) is inserted by xform, a go/packages-based source rewriter, into a scratch copy of /repo's working tree at the start of every check; /repo carries no instrumentation",
  "baseline_off_cmd": "cd /repo && GOFLAGS=-mod=mod go test -vet=off -count=1 ./... && cd learn && GOFLAGS=-mod=mod go test -vet=off -count=1 ./...",
  "source_commits": [],
  "add_only": True,
 },
 "engines": ENGINES,
 "checks": [CLAIMED[k] for k in sorted(CLAIMED)],
 "not_applicable": [{"property_id": k, "reason": v} for k, v in sorted({**NA, **{k: v for k, v in PENDING.items() if k not in CLAIMED}}.items())],
 "notes": NOTES,
}
json.dump(man, open('MANIFEST.json', 'w'), indent=1)
print("claimed:", sorted(CLAIMED), "n/a:", len(man["not_applicable"]))
